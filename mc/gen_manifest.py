#!/usr/bin/env python3
"""Regenerates /verif/MANIFEST.json from mc/props.py (single source of truth)."""
import json
import os
import sys

HERE = os.path.dirname(os.path.abspath(__file__))
sys.path.insert(0, HERE)
from props import PROPS, MANIFEST_TEXT  # noqa: E402

ALL_IDS = ["C%02d" % i for i in range(1, 17)]
checks = []
na = []
for pid in ALL_IDS:
    if pid in PROPS and not PROPS[pid].get("disabled"):
        m = PROPS[pid]
        t = MANIFEST_TEXT[pid]
        checks.append(
            {
                "property_id": pid,
                "quick_cmd": "./check %s --tier quick" % pid,
                "thorough_cmd": "./check %s --tier thorough" % pid,
                "evidence_file": "evidence/%s.json" % pid,
                "replay_cmd_template": "./check %s --replay {path}" % pid,
                "engine": t.get("engine", "explore"),
                "level_claimed": {"category": m["level"], "text": t["text"], "design_ref": t["design_ref"]},
                "level_note": t["note"],
                "technique": t["technique"],
            }
        )
    else:
        na.append({"property_id": pid, "reason": MANIFEST_TEXT.get(pid, {}).get("na_reason", "check not built yet; see DESIGN.md section 4 for the plan")})

manifest = {
    "version": 1,
    "setup_cmd": "sh ./setup.sh",
    "hooks": {
        "guard": "CODE_DATA_VERIF",
        "enable": "no source hooks are needed: every property is observable at the public API; checks import /repo's working tree directly (PYTHONPATH=/repo) on the real 3.7-3.10 interpreters",
        "baseline_off_cmd": "cd /repo && /venv/bin/python -m pytest -ra -q -p no:cacheprovider --timeout=900 --continue-on-collection-errors",
        "source_commits": [],
        "add_only": True,
    },
    "engines": [
        {
            "name": "explore",
            "path": "mc/driver.py",
            "serves_properties": [c["property_id"] for c in checks],
            "kind_free_text": "hand-written bounded-exhaustive explorer: closed-form enumerators of initial states (programs, synthetic code objects, hand-built CodeData, constants, flag words, line programs, argv vectors, operation histories) run on the real implementation under each real CPython 3.7-3.10 (3.11-3.13 as JSON consumers), judged against CPython's own readers; explicit-state search over API operations for the history properties",
        }
    ],
    "checks": checks,
    "notes": "See DESIGN.md. Exit 2 / 'HARNESS:' means the machinery failed (never a verdict). known_findings.json lists recorded genuine defects (KNOWN-FINDING lines) and fixed ones.",
    "not_applicable": na,
}
with open(os.path.join(os.path.dirname(HERE), "MANIFEST.json"), "w") as f:
    json.dump(manifest, f, indent=1)
try:
    import jsonschema

    jsonschema.validate(manifest, json.load(open("/root/.vp/MANIFEST.schema.json")))
    print("MANIFEST.json valid: %d checks, %d not_applicable" % (len(checks), len(na)))
except ImportError:
    print("written (jsonschema not available to validate)")
