# E1: explicit-state exploration of the API on real objects.
# C06 (normalization yields a canonical form whatever the history; serialization
# variants normalize equal) and C12 (API calls are pure).  Python 3.7 compatible.
from __future__ import print_function

import collections
import copy
import dis
import itertools
import json
import sys

import ref
import spaces
from core import PY, PYS, HorizonHit, Monitor, exc_summary, horizon
from mon_line import asm_linetable, asm_lnotab, pairs_to_bytes
from strict import LINE_ATTR, code_key, digest64, jkey, short, skey, walk_codes

from code_data import CodeData

H = 60.0  # per-call horizon (seconds): generous, it only turns non-termination into an observation
LINETABLE = PY >= (3, 10)


def json_cycle(doc):
    return json.loads(json.dumps(doc, allow_nan=False))


# ------------------------------------------------------------------------------ C06
OPS = [
    ("code-roundtrip", lambda x: CodeData.from_code(x.to_code())),
    ("json-roundtrip", lambda x: CodeData.from_json_data(json_cycle(x.to_json_data()))),
    ("normalize", lambda x: x.normalize()),
]


class Variant(Exception):
    """A variant that cannot be built within the harness's assembler limits."""


def patch_operands(code, raw, fn):
    """New co_code where the operand of instruction i becomes fn(i, op, arg); only
    valid when the operand still fits the units the instruction already has."""
    b = bytearray(code.co_code)
    for i, (first, n, op, arg) in enumerate(raw):
        new = fn(i, op, arg)
        if new == arg:
            continue
        if new < 0 or new >= (1 << (8 * n)):
            raise Variant("operand does not fit")
        for u in range(n):
            b[first + 2 * u + 1] = (new >> (8 * (n - 1 - u))) & 0xFF
    return bytes(b)


def line_table_for(lines, sizes, first):
    """A valid line table giving instruction i (sizes[i] units) the line lines[i]."""
    if LINETABLE:
        ranges = []
        for l, n in zip(lines, sizes):
            if ranges and ranges[-1][1] == l:
                ranges[-1] = (ranges[-1][0] + 2 * n, l)
            else:
                ranges.append((2 * n, l))
        return pairs_to_bytes(asm_linetable(ranges, first))
    events = []
    cur = first
    since = 0
    for l, n in zip(lines, sizes):
        if l != cur:
            events.append((since, l - cur))
            cur = l
            since = 0
        since += 2 * n
    return pairs_to_bytes(asm_lnotab(events))


def reassemble(code, raw, sym, sizes):
    """Re-emit the bytecode with sizes[i] units for instruction i (>= needed), fixing
    jump operands and rebuilding a line table with the same line per instruction."""
    offs = []
    o = 0
    for n in sizes:
        offs.append(o)
        o += 2 * n
    out = bytearray()
    for i, ((first, n, op, arg), (name, kind, val)) in enumerate(zip(raw, sym)):
        if kind == "jabs":
            arg = offs[val] // ref.JUMP_UNIT
        elif kind == "jrel":
            arg = (offs[val] - (offs[i] + 2 * sizes[i])) // ref.JUMP_UNIT
            if arg < 0:
                raise Variant("backward relative jump")
        if arg < 0 or arg >= (1 << (8 * sizes[i])):
            raise Variant("operand does not fit")
        for u in range(sizes[i]):
            out.append(op if u == sizes[i] - 1 else dis.EXTENDED_ARG)
            out.append((arg >> (8 * (sizes[i] - 1 - u))) & 0xFF)
    lines = [ref.addr2line(code, first) for first, n, op, arg in raw]
    if not LINETABLE and any(l is None for l in lines):
        raise Variant("no line")
    kw = {"co_code": bytes(out), LINE_ATTR: line_table_for(lines, sizes, code.co_firstlineno)}
    return ref.code_replace(code, **kw)


def perms(m):
    if m <= 4:
        for p in itertools.permutations(range(m)):
            if list(p) != list(range(m)):
                yield list(p)
    else:
        for i in range(m):
            for j in range(i + 1, m):
                p = list(range(m))
                p[i], p[j] = p[j], p[i]
                yield p


def n_params(code):
    n = code.co_argcount + code.co_kwonlyargcount
    if code.co_flags & ref.CO_VARARGS:
        n += 1
    if code.co_flags & ref.CO_VARKEYWORDS:
        n += 1
    return n


def variants(code):
    """(description, variant code object): serialization artefacts only."""
    raw = ref.raw_instructions(code.co_code)
    sym = ref.resolve(code, raw)
    isfn = code.co_flags & 0x3 == 0x3
    ncell = len(code.co_cellvars)
    tables = [
        ("co_names", ref.HASNAME, 0),
        ("co_consts", ref.HASCONST, 1 if isfn else 0),
        ("co_varnames", ref.HASLOCAL, n_params(code) if isfn else 0),
        ("co_cellvars", ref.HASFREE, 0),
    ]
    for attr, ops, fixed in tables:
        t = getattr(code, attr)
        m = len(t) - fixed
        if m < 0:
            continue
        # permutations of the movable part
        for p in perms(m) if m >= 2 else []:
            full = list(range(fixed)) + [fixed + x for x in p]  # old index -> new index
            new_t = [None] * len(t)
            for old, new in enumerate(full):
                new_t[new] = t[old]

            def fn(i, op, arg, ops=ops, full=full, attr=attr):
                if op in ops and (attr != "co_cellvars" or arg < ncell):
                    return full[arg]
                return arg

            try:
                yield "permute %s %s" % (attr, p), ref.code_replace(code, **{attr: tuple(new_t), "co_code": patch_operands(code, raw, fn)})
            except Variant:
                continue
        # one unreferenced padding entry at every movable position
        pad = {"co_names": "zz_pad_name", "co_consts": 987654321, "co_varnames": "zz_pad_local", "co_cellvars": "zz_pad_cell"}[attr]
        if pad in t:
            continue
        for pos in range(fixed, len(t) + 1):
            new_t = t[:pos] + (pad,) + t[pos:]

            def fn2(i, op, arg, ops=ops, pos=pos, attr=attr):
                if op in ops and arg >= pos:
                    return arg + 1
                return arg

            kw = {attr: new_t}
            if attr == "co_varnames":
                kw["co_nlocals"] = code.co_nlocals + 1
            if attr == "co_cellvars" and (code.co_flags & ref.CO_NOFREE):
                kw["co_flags"] = code.co_flags & ~ref.CO_NOFREE
            try:
                kw["co_code"] = patch_operands(code, raw, fn2)
                yield "pad %s at %d" % (attr, pos), ref.code_replace(code, **kw)
            except Variant:
                continue
    # a redundant EXTENDED_ARG 0 prefix before one instruction
    if len(code.co_code) <= 200:
        for p in range(len(raw)):
            if raw[p][2] < dis.HAVE_ARGUMENT:
                continue
            sizes = [n for first, n, op, arg in raw]
            sizes[p] += 1
            try:
                yield "extended-arg-0 before instruction %d" % p, reassemble(code, raw, sym, sizes)
            except Variant:
                continue
        # the same table contents re-encoded by the harness (different line-table bytes)
        try:
            yield "reassembled", reassemble(code, raw, sym, [n for first, n, op, arg in raw])
        except Variant:
            pass
    yield "toggle CO_NESTED", ref.code_replace(code, co_flags=code.co_flags ^ ref.CO_NESTED)


def same_meaning(a, b):
    """Harness self-check: a variant must read, to CPython, exactly like the original
    (resolved operands, jump target indices, lines, header up to the artefacts)."""
    ra, rb = ref.raw_instructions(a.co_code), ref.raw_instructions(b.co_code)
    sa, sb = ref.resolve(a, ra), ref.resolve(b, rb)
    if sa != sb:
        return False
    for (fa, na, oa, aa), (fb, nb, ob, ab) in zip(ra, rb):
        if ref.addr2line(a, fa) != ref.addr2line(b, fb):
            return False
    for attr in ("co_argcount", "co_kwonlyargcount", "co_name", "co_filename", "co_firstlineno", "co_stacksize", "co_freevars"):
        if getattr(a, attr) != getattr(b, attr):
            return False
    return ref.sig_from_header(a) == ref.sig_from_header(b)


def substitute(root, path, new):
    if not path:
        return new
    i = path[0]
    child = substitute(root.co_consts[i], path[1:], new)
    consts = root.co_consts[:i] + (child,) + root.co_consts[i + 1 :]
    return ref.code_replace(root, co_consts=consts)


class C06(Monitor):
    prop = "C06"
    level = "model_checking"

    def __init__(self, tier):
        Monitor.__init__(self, tier)
        self.seen = set()
        self.vseen = set()

    def depth(self):
        return 4 if self.tier == "quick" else 6

    def programs(self):
        S = spaces
        # J: programs whose jumps need EXTENDED_ARG (re-encoding normalized data has
        # to grow them in the fix-point loop)
        jumps = [c for c in S.feat_cases(self.tier) if c["k"] == "jump" and c["n"] <= 200]
        # tables whose last index needs three code units: re-encoding normalized data
        # has to size operands at the 65535/65536 boundary itself
        jumps += [c for c in S.feat_cases(self.tier) if c["k"] == "feat" and c["fam"] in (("names",) if self.tier == "quick" else ("names", "consts")) and c["n"] >= 65535]
        q = list(S.prog_Q()) + list(S.prog_P1())
        if self.tier == "quick":
            out = list(S.with_modes(S.prog_Pa()))
            return out[::8] + jumps + q
        return list(S.with_modes(S.prog_Pa())) + list(S.with_modes(S.prog_Pb()))[::3] + jumps + q

    def cases(self):
        for c in self.programs():
            yield dict(c, s="HG")

    def predicted(self):
        return len(self.programs())

    def check(self, case, stats):
        try:
            root = spaces.build_code(case)
        except (SyntaxError, ValueError) as e:
            stats.skipped["not-compilable"] += 1
            return
        stats.sample("HG", {"program": case.get("src", case), "operations": [n for n, f in OPS], "depth": self.depth()}, per=2)
        for path, code in walk_codes(root):
            key = digest64(code_key(code))
            if key not in self.seen:
                self.seen.add(key)
                self.graph(dict(case, cpath=list(path)), code, stats)
            if key not in self.vseen and len(code.co_code) <= 400 and max(len(code.co_consts), len(code.co_names), len(code.co_varnames), len(code.co_cellvars)) <= 6:
                self.vseen.add(key)
                self.variant_checks(dict(case, cpath=list(path)), root, list(path), code, stats)

    def replay(self, case, stats):
        root = spaces.build_code(case)
        code = root
        for i in case.get("cpath", []):
            code = code.co_consts[i]
        if "variant" in case:
            self.variant_checks(case, root, case.get("cpath", []), code, stats, only=case["variant"])
        else:
            self.graph(case, code, stats)

    # -- (i) the operation graph ------------------------------------------------------
    def graph(self, case, code, stats):
        hh = 900.0 if (len(code.co_consts) > 5000 or len(code.co_names) > 5000 or len(code.co_code) > 20000) else H
        try:
            with horizon(hh):
                x0 = CodeData.from_code(code)
                n0 = x0.normalize()
        except Exception as e:
            stats.skipped["from_code-raises"] += 1
            return
        want = skey(n0, True)
        stats.evaluations += 1
        nodes = {skey(x0, True): (x0, [])}
        frontier = collections.deque([skey(x0, True)])
        closed = True
        while frontier:
            k = frontier.popleft()
            x, hist = nodes[k]
            # invariants on the node
            try:
                with horizon(hh):
                    n = x.normalize()
                    nn = n.normalize()
            except HorizonHit:
                stats.violation(dict(case, history=hist), "normalize-no-termination", "")
                return
            except Exception as e:
                stats.violation(dict(case, history=hist), "normalize-raises:" + type(e).__name__, exc_summary(e))
                return
            if skey(nn) != skey(n):
                stats.violation(dict(case, history=hist), "not-idempotent", "normalize(normalize(x)) != normalize(x) after history %s" % hist)
                return
            if skey(n, True) != want:
                stats.violation(
                    dict(case, history=hist),
                    "history-dependent",
                    "after history %s, normalize gives a value different from normalize(from_code(c)): %s" % (hist, first_diff(n0, n)),
                )
                return
            if len(hist) >= self.depth():
                closed = False
                continue
            for name, op in OPS:
                try:
                    with horizon(hh):
                        y = op(x)
                except HorizonHit:
                    stats.violation(dict(case, history=hist + [name]), "operation-no-termination", name)
                    return
                except Exception as e:
                    stats.violation(dict(case, history=hist + [name]), "operation-raises:" + type(e).__name__, "%s after %s: %s" % (name, hist, exc_summary(e)))
                    return
                stats.transitions += 1
                ky = skey(y, True)
                if ky not in nodes:
                    nodes[ky] = (y, hist + [name])
                    frontier.append(ky)
        stats.states += len(nodes)
        stats.traces_validated += 1
        stats.outcomes["graph-closed" if closed else "graph-depth-bound-hit"] += 1
        stats.outcomes["graph-states:%d" % min(len(nodes), 6)] += 1
        if len(nodes) > 1:
            stats.nontriv(("graph", code_key(code)))
        if not closed:
            stats.violation(case, "graph-does-not-close", "the operation graph keeps producing new values up to depth %d (%d states)" % (self.depth(), len(nodes)))

    # -- (ii) serialization variants ------------------------------------------------
    def variant_checks(self, case, root, path, code, stats, only=None):
        try:
            with horizon(H):
                base_n = skey(CodeData.from_code(code).normalize(), True)
                root_n = skey(CodeData.from_code(root).normalize(), True) if path else None
        except Exception:
            stats.skipped["from_code-raises"] += 1
            return
        for desc, v in variants(code):
            if only is not None and desc != only:
                continue
            if not same_meaning(code, v):
                raise ref.HarnessError("variant %r of %r does not keep the meaning" % (desc, case))
            stats.evaluations += 1
            stats.reach["variant:" + desc.split(" ")[0]] += 1
            stats.sample("VAR:" + desc.split(" ")[0], {"program": case.get("src", case.get("kind")), "code_object_path": path, "variant": desc}, per=1)
            stats.nontriv(("variant", code_key(v)))
            sub = dict(case, variant=desc)
            try:
                with horizon(H):
                    vn = CodeData.from_code(v).normalize()
            except HorizonHit:
                stats.violation(sub, "variant-no-termination", desc)
                continue
            except Exception as e:
                stats.violation(sub, "variant-decode-raises:" + type(e).__name__, "%s: %s" % (desc, exc_summary(e)))
                continue
            stats.transitions += 2
            if skey(vn, True) != base_n:
                stats.violation(
                    sub,
                    "variant-normalizes-differently:" + desc.split(" ")[0],
                    "%s: normalized data differs from the original's: %s" % (desc, first_diff(CodeData.from_code(code).normalize(), vn)),
                )
                continue
            # the variant's own (un-normalized) data through a code round trip: the
            # artefacts it carries (permuted tables, padding entries, pinned widths)
            # must be encodable and must not change the normal form either
            try:
                with horizon(H):
                    vr = CodeData.from_code(CodeData.from_code(v).to_code()).normalize()
            except HorizonHit:
                stats.violation(sub, "variant-roundtrip-no-termination", desc)
                continue
            except Exception as e:
                stats.violation(sub, "variant-roundtrip-raises:" + type(e).__name__, "%s: %s" % (desc, exc_summary(e)))
                continue
            stats.transitions += 3
            if skey(vr, True) != base_n:
                stats.violation(
                    sub,
                    "variant-roundtrip-normalizes-differently:" + desc.split(" ")[0],
                    "%s: after a code round trip of the variant's data the normal form differs: %s" % (desc, first_diff(CodeData.from_code(code).normalize(), vr)),
                )
                continue
            if path:
                # the variant inside its parents, up to the root
                try:
                    with horizon(H):
                        rv = substitute(root, path, v)
                        rn = skey(CodeData.from_code(rv).normalize(), True)
                except Exception as e:
                    stats.violation(sub, "nested-variant-raises:" + type(e).__name__, "%s inside its parent: %s" % (desc, exc_summary(e)))
                    continue
                stats.transitions += 2
                if rn != root_n:
                    stats.violation(sub, "nested-variant-normalizes-differently:" + desc.split(" ")[0], "%s, substituted inside its parents: the root normalizes differently" % desc)
                    continue
                stats.reach["variant-nested"] += 1
            stats.outcomes["variant-ok"] += 1


def first_diff(x, y, path="x"):
    import dataclasses

    if type(x) is not type(y):
        return "%s: %s vs %s" % (path, short(x, 60), short(y, 60))
    if dataclasses.is_dataclass(x):
        for f in dataclasses.fields(x):
            r = first_diff(getattr(x, f.name), getattr(y, f.name), path + "." + f.name)
            if r:
                return r
        return None
    if type(x) is tuple:
        if len(x) != len(y):
            return "%s: length %d vs %d" % (path, len(x), len(y))
        for i, (a, b) in enumerate(zip(x, y)):
            r = first_diff(a, b, "%s[%d]" % (path, i))
            if r:
                return r
        return None
    if skey(x, True) != skey(y, True):
        return "%s: %s vs %s" % (path, short(x, 60), short(y, 60))
    return None


# ------------------------------------------------------------------------------ C12
CALLS = ["from_code(c)", "to_code(d)", "to_code(n)", "normalize(d)", "normalize(n)", "to_json(d)", "to_json(n)", "from_json(jd)", "from_json(jn)", "from_json(jbad)"]


def do_call(name, st):
    if name == "from_code(c)":
        return CodeData.from_code(st["c"])
    if name == "to_code(d)":
        return st["d"].to_code()
    if name == "to_code(n)":
        return st["n"].to_code()
    if name == "normalize(d)":
        return st["d"].normalize()
    if name == "normalize(n)":
        return st["n"].normalize()
    if name == "to_json(d)":
        return st["d"].to_json_data()
    if name == "to_json(n)":
        return st["n"].to_json_data()
    if name == "from_json(jd)":
        return CodeData.from_json_data(st["jd"])
    if name == "from_json(jn)":
        return CodeData.from_json_data(st["jn"])
    if name == "from_json(jbad)":
        # a document that cannot be loaded (a required key is missing deep inside):
        # the call fails, and must fail the same way every time and leave nothing behind
        return CodeData.from_json_data(st["jbad"])
    raise KeyError(name)


def result_key(v):
    if type(v) is dict:
        return ("doc", jkey(v))
    if type(v) is type(do_call.__code__):
        return ("code", code_key(v, True))
    return ("data", skey(v, True))


def snapshot(st):
    # documents: exact, including key order and nested containers; everything else by
    # strict key (bit-exact floats: nothing may be touched)
    return (code_key(st["c"]), skey(st["d"]), skey(st["n"]), jkey(st["jd"]), jkey(st["jn"]), jkey(st["jbad"]))


def break_document(doc):
    """A deep copy of doc with 'stacksize' removed from the innermost nested code
    document (the top-level one if nothing is nested)."""
    bad = copy.deepcopy(doc)

    def innermost(d):
        for b in d.get("blocks", []):
            for ins in b:
                a = ins.get("arg")
                if isinstance(a, dict) and isinstance(a.get("constant"), dict) and "filename" in a["constant"]:
                    return innermost(a["constant"])
        return d

    innermost(bad).pop("stacksize", None)
    return bad


def container_paths(doc, path=()):
    if type(doc) is dict:
        yield path
        for k, v in doc.items():
            for p in container_paths(v, path + (k,)):
                yield p
    elif type(doc) is list:
        yield path
        for i, v in enumerate(doc):
            for p in container_paths(v, path + (i,)):
                yield p


def get_path(doc, path):
    for k in path:
        doc = doc[k]
    return doc


def mutate(container):
    if type(container) is dict:
        if container:
            container.pop(next(iter(container)))
        container["__verif_injected__"] = [1]
    else:
        if container:
            container.pop()
        container.append({"__verif_injected__": 1})


class C12(Monitor):
    prop = "C12"
    level = "model_checking"

    def __init__(self, tier):
        Monitor.__init__(self, tier)
        self.seen = set()

    def depth(self):
        return 2 if self.tier == "quick" else 3

    def programs(self):
        out = list(spaces.with_modes(spaces.prog_Pa()))
        n = 400 if self.tier == "quick" else 1200
        # an integer constant with more decimal digits than the interpreters' int->str
        # limit (4300): to_json_data must refuse it the same way every time
        huge = [{"k": "src", "s": "HP", "src": "v = 0x1" + "0" * 4000 + "\nw = 2**70\n", "mode": "exec", "opt": 0}]
        # (first in the list: it has to be seen by a process that has done nothing else)
        # names that JSON cannot carry as plain strings (lone surrogate), in the list-valued
        # fields of the document (parameters, free variables) and in the name tables
        odd = [{"k": "strpos", "s": "HP", "pos": pos} for pos in ("param", "free", "cell", "local", "name")]
        return huge + spaces.spread(out, n) + list(spaces.prog_Q()) + list(spaces.prog_P1()) + odd

    def cases(self):
        for c in self.programs():
            yield dict(c, s="HP")

    def predicted(self):
        return len(self.programs())

    def check(self, case, stats):
        try:
            if case.get("k") == "strpos":
                import mon_json

                root = mon_json.code_with_string("\ud800y", case["pos"])
            else:
                root = spaces.build_code(case)
        except (SyntaxError, ValueError):
            stats.skipped["not-compilable"] += 1
            return
        stats.sample("HP", {"program": case.get("src", case), "calls": CALLS, "max_sequence_length": self.depth()}, per=2)
        for path, code in walk_codes(root):
            key = digest64(code_key(code))
            if key in self.seen:
                continue
            self.seen.add(key)
            self.histories(dict(case, cpath=list(path)), code, stats)

    def replay(self, case, stats):
        if case.get("k") == "strpos":
            import mon_json

            root = mon_json.code_with_string("\ud800y", case["pos"])
        else:
            root = spaces.build_code(case)
        code = root
        for i in case.get("cpath", []):
            code = code.co_consts[i]
        self.histories(case, code, stats, only=case.get("history"))

    def finish(self, stats):
        """End-of-shard recheck: every argument seen by this process (and its twin: an
        equal code object under code.__eq__ with another file name and name-independent
        fields) is passed to the API once more, after everything else this process did;
        the results must equal the first ones (bounded caches that evict, caches keyed
        too coarsely, leftover module state)."""
        for case, code, twin, first in getattr(self, "recheck", []):
            for label, obj in (("c", code), ("twin", twin)):
                try:
                    with horizon(H):
                        d = CodeData.from_code(obj)
                        got = (skey(d, True), skey(d.normalize(), True), jkey(d.to_json_data()))
                except Exception as e:
                    got = ("raises", type(e).__name__)
                stats.transitions += 3
                if got != first[label]:
                    stats.violation(
                        dict(case, recheck=label),
                        "not-repeatable-later",
                        "from_code/normalize/to_json_data of the same %s give another result at the end of the process than at first (%d arguments were processed in between)" % ("code object" if label == "c" else "twin code object (same code, other file name)", len(self.recheck)),
                    )
                    return
        if getattr(self, "recheck", None):
            stats.outcomes["recheck-ok"] += 1

    def fresh_store(self, code):
        d = CodeData.from_code(code)
        n = d.normalize()
        jd = d.to_json_data()
        return {"c": code, "d": d, "n": n, "jd": jd, "jn": n.to_json_data(), "jbad": break_document(jd)}

    def histories(self, case, code, stats, only=None):
        try:
            with horizon(H):
                st0 = self.fresh_store(code)
        except Exception as e:
            stats.skipped["store-setup-raises"] += 1
            if only is None:
                # still subject to the end-of-process recheck: it must fail the same way
                twin = ref.code_replace(code, co_filename="<verif-twin>")
                first = {}
                for label, obj in (("c", code), ("twin", twin)):
                    try:
                        d = CodeData.from_code(obj)
                        first[label] = (skey(d, True), skey(d.normalize(), True), jkey(d.to_json_data()))
                    except Exception as e2:
                        first[label] = ("raises", type(e2).__name__)
                if not hasattr(self, "recheck"):
                    self.recheck = []
                self.recheck.append((case, code, twin, first))
            return
        stats.evaluations += 1
        stats.nontriv(code_key(code))
        if st0["d"].type is not None:
            stats.reach["function-document"] += 1
        base = snapshot(st0)
        if only is None:
            # first results for the end-of-shard recheck, for the object and its twin
            twin = ref.code_replace(code, co_filename="<verif-twin>")
            first = {}
            for label, obj in (("c", code), ("twin", twin)):
                try:
                    d = CodeData.from_code(obj)
                    first[label] = (skey(d, True), skey(d.normalize(), True), jkey(d.to_json_data()))
                    if label == "twin" and d.filename != "<verif-twin>":
                        stats.violation(case, "twin-decoded-as-original", "from_code of an equal code object with another file name returns the first one's data (filename %r)" % d.filename)
                        return
                except Exception as e:
                    first[label] = ("raises", type(e).__name__)
            if not hasattr(self, "recheck"):
                self.recheck = []
            self.recheck.append((case, code, twin, first))
        # reference results from a store nobody else touches
        ref_results = {}
        for name in CALLS:
            try:
                st = self.fresh_store(code)
                ref_results[name] = result_key(do_call(name, st))
            except Exception as e:
                ref_results[name] = ("raises", type(e).__name__)
        snaps = set([digest64(base)])
        seqs = [tuple(only)] if only else [s for L in range(1, self.depth() + 1) for s in itertools.product(CALLS, repeat=L)]
        # All sequences run one after the other on ONE shared store: since every call
        # must leave the store exactly as it was (checked), each sequence starts from
        # the same visible state, and hidden state left behind by earlier sequences
        # can only show up as a non-repeatable result - which is what is looked for.
        # Documents (the only mutable objects) are compared after every call, the
        # whole store after every sequence.
        st = st0
        docs0 = (repr(st["jd"]), repr(st["jn"]), repr(st["jbad"]))
        for seq in seqs:
            for pos, name in enumerate(seq):
                try:
                    with horizon(H):
                        r = do_call(name, st)
                        rk = result_key(r)
                except HorizonHit:
                    stats.violation(dict(case, history=list(seq[: pos + 1])), "call-no-termination", name)
                    return
                except Exception as e:
                    rk = ("raises", type(e).__name__)
                stats.transitions += 1
                if (repr(st["jd"]), repr(st["jn"]), repr(st["jbad"])) != docs0:
                    which = [n for n, a, b in zip(("c", "d", "n", "jd", "jn", "jbad"), base, snapshot(st)) if a != b]
                    stats.violation(
                        dict(case, history=list(seq[: pos + 1])),
                        "argument-mutated",
                        "%s (after %s) modified %s" % (name, list(seq[:pos]), which),
                    )
                    return
                if rk != ref_results[name]:
                    stats.violation(
                        dict(case, history=list(seq[: pos + 1])),
                        "not-repeatable",
                        "%s after %s gives %s; on untouched arguments it gives %s" % (name, list(seq[:pos]), short(rk, 100), short(ref_results[name], 100)),
                    )
                    return
            if len(seq) == 1 or seq[-1] != seq[-2]:
                after = snapshot(st)
                if after != base:
                    snaps.add(digest64(after))
                    which = [n for n, a, b in zip(("c", "d", "n", "jd", "jn", "jbad"), base, after) if a != b]
                    stats.violation(dict(case, history=list(seq)), "argument-mutated", "%s modified %s" % (list(seq), which))
                    return
        stats.states += len(snaps)
        stats.traces_validated += len(seqs)
        # returned documents share no state with the CodeData; loaded data shares none
        # with the input document
        for which in ("d", "n"):
            try:
                st = self.fresh_store(code)
                x = st[which]
                kx = skey(x)
                doc = x.to_json_data()
                want = jkey(doc)
                paths = list(container_paths(doc))
            except Exception as e:
                stats.skipped["mutation-setup-raises"] += 1
                continue
            cap = 20 if self.tier == "quick" else 80
            if len(paths) > cap:
                # spread over the document rather than its first containers
                step = len(paths) // cap + 1
                paths = paths[::step]
            for p in paths:
                doc2 = x.to_json_data()
                mutate(get_path(doc2, p))
                stats.transitions += 1
                if skey(x) != kx:
                    stats.violation(dict(case, mutate_path=[str(e) for e in p]), "returned-doc-aliases-codedata", "mutating the returned document at %s changed the CodeData" % (p,))
                    return
                if jkey(x.to_json_data()) != want:
                    stats.violation(dict(case, mutate_path=[str(e) for e in p]), "returned-doc-aliases-later-call", "mutating a returned document at %s changed a later to_json_data()" % (p,))
                    return
            # input document mutated after loading
            for p in paths:
                src = x.to_json_data()
                try:
                    y = CodeData.from_json_data(src)
                except Exception:
                    break
                ky = skey(y)
                mutate(get_path(src, p))
                stats.transitions += 1
                if skey(y) != ky:
                    stats.violation(dict(case, mutate_path=[str(e) for e in p]), "loaded-data-aliases-input", "mutating the input document at %s after from_json_data changed the loaded CodeData" % (p,))
                    return
        stats.outcomes["pure:%d-sequences" % len(seqs)] += 1


MONITORS = {"C06": C06, "C12": C12}
