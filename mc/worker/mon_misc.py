# C04 (signature/docstring/kind) and C11 (flags; nothing silently dropped).
# Python 3.7 compatible.
from __future__ import print_function

import dis
import itertools
import json
import os
import sys

import __future__ as _future

import ref
import spaces
from core import PY, PYS, HorizonHit, Monitor, exc_summary, horizon
from mon_code import H, CodeMonitor, flat, progs_strata
from strict import CODE_ATTRS, HEADER_ATTRS, code_diff, code_key, digest64, short, skey, walk_codes

from code_data import Args, CodeData, Function

# ------------------------------------------------------------------------------ S-SIG
DOCS = [
    ("none", []),
    ("plain", ['"doc"']),
    ("nonfirst", ["x = 1", '"notdoc"']),
    ("nonstr", ["42"]),
    ("bytes", ['b"doc"']),
    ("fstring", ['f"doc{1}"']),
    ("surrogate", ['"\\udc80doc"']),
    ("strfirstuse", ['return "s"']),
    ("plain-O2", ['"doc"']),
    ("empty", ['""']),
    ("empty-used", ['""', 'x = ""']),
    ("whitespace", ['" "']),
]
FKINDS = ["def", "lambda", "asyncdef", "gen", "asyncgen", "method"]


def sig_shapes():
    pos = (0, 1, 2) if PY >= (3, 8) else (0,)
    for po in pos:
        for pk in (0, 1, 2):
            for ko in (0, 1, 2):
                for star in (0, 1):
                    for dstar in (0, 1):
                        yield po, pk, ko, star, dstar


def n_sig_shapes():
    return (3 if PY >= (3, 8) else 1) * 3 * 3 * 2 * 2


def sig_text(po, pk, ko, star, dstar, defaults=False):
    parts = []
    names = []
    # positional parameters are named by position only, so that shapes that differ
    # just in where '/' sits have identical names and counts
    for i in range(po):
        parts.append("x%d" % i)
        names.append("x%d" % i)
    if po:
        parts.append("/")
    for i in range(pk):
        parts.append("x%d" % (po + i) + ("=None" if defaults else ""))
        names.append("x%d" % (po + i))
    if star:
        parts.append("*args")
    elif ko:
        parts.append("*")
    for i in range(ko):
        parts.append("k%d" % i + ("=None" if defaults else ""))
        names.append("k%d" % i)
    if dstar:
        parts.append("**kw")
    return ", ".join(parts), names


def sig_cases():
    for shape in sig_shapes():
        po, pk, ko, star, dstar = shape
        sig, names = sig_text(*shape)
        first = names[0] if names else ("args" if star else ("kw" if dstar else None))
        for kind in FKINDS:
            docs = DOCS if kind != "lambda" else DOCS[:1]
            for dname, dlines in docs:
                for cell in (0, 1):
                    if cell and first is None:
                        body_cell = None
                    if kind == "lambda":
                        body = "(lambda: %s)" % first if (cell and first) else "0"
                        src = "f = lambda %s: %s\n" % (sig, body)
                    else:
                        lines = list(dlines)
                        if cell and first:
                            lines += ["def inner():", "    return %s" % first]
                        if kind in ("gen", "asyncgen"):
                            lines += ["yield 1"]
                        elif kind == "asyncdef":
                            lines += ["await z"]
                        else:
                            lines += ["return 0"]
                        head = "async def" if kind in ("asyncdef", "asyncgen") else "def"
                        if kind == "method":
                            s2 = "self" + (", " + sig if sig else "")
                            # keep '/' valid: self is positional too
                            src = "class C:\n    def m(%s):\n" % s2 + "".join("        %s\n" % l for l in lines)
                        else:
                            src = "%s f(%s):\n" % (head, sig) + "".join("    %s\n" % l for l in lines)
                    yield {
                        "k": "src",
                        "s": "SIG",
                        "src": src,
                        "mode": "exec",
                        "opt": 2 if dname == "plain-O2" else 0,
                    }
    # comprehensions, class bodies, modules
    extra = [
        "v = [x for x in a]\n",
        'v = ["s" for x in a]\n',
        "v = {x: y for x in a for y in b}\n",
        "v = (x for x in a)\n",
        'v = list("s" for x in a)\n',
        "async def f():\n    return [x async for x in a]\n",
        "async def f():\n    return (x async for x in a)\n",
        'class C:\n    "cdoc"\n    x = 1\n',
        "class C:\n    x = 1\n",
        'class C:\n    "cdoc"\n    def m(self): return __class__\n',
        '"module doc"\nx = 1\n',
        "x = 1\n",
        'def f():\n    "doc"\n    def g():\n        "inner doc"\n        return f\n    return g\n',
        "def f():\n    return lambda: (yield)\n",
    ]
    for src in extra:
        for opt in (0, 2):
            yield {"k": "src", "s": "SIGX", "src": src, "mode": "exec", "opt": opt}


def n_sig_cases():
    per_shape = 0
    for kind in FKINDS:
        per_shape += (len(DOCS) if kind != "lambda" else 1) * 2
    return n_sig_shapes() * per_shape + 14 * 2


class C04(CodeMonitor):
    prop = "C04"

    def replay(self, case, stats):
        root = spaces.build_code(case)
        code = root
        for i in case.get("cpath", []):
            code = code.co_consts[i]
        if case.get("renamed") is not None:
            code = ref.code_replace(code, co_name=case["renamed"])
        self.check_code(case, code, stats)

    def __init__(self, tier):
        CodeMonitor.__init__(self, tier)
        want = ("Pa", "Pc", "R") if tier == "quick" else None
        self._strata = [("SIG", sig_cases, n_sig_cases())] + progs_strata(tier, False, want)

    def check_code(self, case, code, stats):
        isfn = code.co_flags & 0x3 == 0x3
        d = self.decode(case, code, stats)
        if d is None:
            return
        if not isfn:
            stats.reach["nonfn"] += 1
            if d.type is not None:
                stats.violation(case, "nonfunction-type", "module/class-body code decodes with type %s" % short(d.type))
            else:
                stats.outcomes["nonfn-ok"] += 1
            return
        want_a = ref.sig_from_header(code)
        try:
            want_b, fn = ref.sig_from_inspect(code)
        except Exception as e:
            raise ref.HarnessError("inspect.signature failed: %r" % (e,))
        if want_a != want_b:
            raise ref.HarnessError("R-SIG (a) %r and inspect %r disagree" % (want_a, want_b))
        stats.nontriv(("sig", tuple(want_a), code.co_flags, type(code.co_consts[0]).__name__ if code.co_consts else None))
        kinds_present = set(k for n, k in want_a)
        for k in kinds_present:
            stats.reach["param:" + k] += 1
        if "VAR_POSITIONAL" in kinds_present and "KEYWORD_ONLY" in kinds_present:
            stats.reach["param:star+kwonly"] += 1
        t = d.type
        if type(t) is not Function or type(t.args) is not Args:
            stats.violation(case, "function-type", "function-like code decodes with type %s" % short(t))
            return
        try:
            got = [(n, k.name) for n, k in t.args.parameters.items()]
            ln = len(t.args)
        except Exception as e:
            stats.violation(case, "parameters-raises:" + type(e).__name__, exc_summary(e))
            return
        if got != want_a:
            stats.violation(
                case,
                "parameters",
                "Args.parameters %s, CPython binds %s" % (short(got, 200), short(want_a, 200)),
            )
            return
        if ln != len(want_a):
            stats.violation(case, "len", "len(args) == %d, %d parameters" % (ln, len(want_a)))
            return
        # the mapping handed out belongs to the caller: emptying it must not reach the
        # answer given for the same (or an equal) signature afterwards
        try:
            pm = t.args.parameters
            if hasattr(pm, "clear"):
                pm.clear()
            again = [(n, k.name) for n, k in CodeData.from_code(code).type.args.parameters.items()]
        except Exception as e:
            stats.violation(case, "parameters-raises:" + type(e).__name__, "after the caller emptied an earlier answer: " + exc_summary(e))
            return
        if again != want_a:
            stats.violation(
                case,
                "parameters",
                "after the caller emptied the mapping of an earlier answer: Args.parameters %s, CPython binds %s" % (short(again, 200), short(want_a, 200)),
            )
            return
        # field-level agreement (kinds must come from the right fields)
        by_kind = {}
        for n, k in want_a:
            by_kind.setdefault(k, []).append(n)
        fields_ok = (
            list(t.args.positional_only) == by_kind.get("POSITIONAL_ONLY", [])
            and list(t.args.positional_or_keyword) == by_kind.get("POSITIONAL_OR_KEYWORD", [])
            and list(t.args.keyword_only) == by_kind.get("KEYWORD_ONLY", [])
            and t.args.var_positional == (by_kind.get("VAR_POSITIONAL", [None])[0])
            and t.args.var_keyword == (by_kind.get("VAR_KEYWORD", [None])[0])
        )
        if not fields_ok:
            stats.violation(case, "args-fields", "Args fields %s do not match CPython's kinds %s" % (short(t.args, 200), short(want_a, 200)))
            return
        # (c) CPython's own binding of a stub with the same header
        why = binding_experiment(code, want_a)
        if why:
            raise ref.HarnessError("calling convention disagrees with R-SIG: " + why)
        if t.docstring != fn.__doc__ or (t.docstring is not None and type(t.docstring) is not str):
            stats.violation(case, "docstring", "docstring %s, __doc__ %s" % (short(t.docstring), short(fn.__doc__)))
            return
        if fn.__doc__ is not None:
            stats.reach["has-doc"] += 1
        kind = ref.function_kind(fn)
        if t.type != kind:
            stats.violation(case, "kind", "type %r, inspect classifies %r" % (t.type, kind))
            return
        stats.reach["kind:%s" % kind] += 1
        stats.outcomes["sig-ok"] += 1
        # the same function under other names: nothing in the calling convention, the
        # docstring or the kind depends on co_name
        if case.get("s") == "SIG" and not case.get("renamed"):
            for nm in ("<lambda>", "<listcomp>", "<module>", ""):
                if nm != code.co_name:
                    self.check_code(dict(case, renamed=nm), ref.code_replace(code, co_name=nm), stats)


def binding_experiment(code, want):
    """Bind a stub with the same header through CPython's real call machinery and
    confirm the kinds in `want` (harness self-check of R-SIG)."""
    fn, n = ref.binding_stub(code)
    names = list(code.co_varnames[:n])
    if any(nm.startswith(".") for nm in names):
        kwable = False
    else:
        kwable = True
    pos = [nm for nm, k in want if k in ("POSITIONAL_ONLY", "POSITIONAL_OR_KEYWORD")]
    kwo = [nm for nm, k in want if k == "KEYWORD_ONLY"]
    star = [nm for nm, k in want if k == "VAR_POSITIONAL"]
    dstar = [nm for nm, k in want if k == "VAR_KEYWORD"]
    args = [("P", nm) for nm in pos]
    extra_pos = [("X", 0), ("X", 1)] if star else []
    kwargs = dict((nm, ("K", nm)) for nm in kwo)
    extra_kw = {"zz_extra": ("X", "kw")} if dstar else {}
    try:
        res = fn(*(args + extra_pos), **dict(kwargs, **extra_kw))
    except TypeError as e:
        return "stub call failed: %s" % e
    slots = dict(zip(names, res))
    for nm in pos:
        if slots.get(nm) != ("P", nm):
            return "positional %s bound to %r" % (nm, slots.get(nm))
    for nm in kwo:
        if slots.get(nm) != ("K", nm):
            return "keyword-only %s bound to %r" % (nm, slots.get(nm))
    if star and slots.get(star[0]) != tuple(extra_pos):
        return "*%s bound to %r" % (star[0], slots.get(star[0]))
    if dstar and slots.get(dstar[0]) != extra_kw:
        return "**%s bound to %r" % (dstar[0], slots.get(dstar[0]))
    # negatives: a positional-only name is not accepted as keyword; a keyword-only
    # name is not accepted positionally
    for nm, k in want:
        if k == "POSITIONAL_ONLY" and kwable:
            a2 = [a for a in args if a[1] != nm]
            try:
                r = fn(*a2, **dict(kwargs, **{nm: ("Q", nm)}))
            except TypeError:
                continue
            s2 = dict(zip(names, r))
            if s2.get(nm) == ("Q", nm):
                return "positional-only %s accepted by keyword" % nm
        if k == "POSITIONAL_OR_KEYWORD" and kwable:
            idx = [a[1] for a in args].index(nm)
            a2 = args[:idx]
            rest = dict((a[1], a) for a in args[idx:])
            try:
                r = fn(*a2, **dict(kwargs, **rest))
            except TypeError as e:
                return "positional-or-keyword %s not accepted by keyword: %s" % (nm, e)
            s2 = dict(zip(names, r))
            if s2.get(nm) != ("P", nm):
                return "positional-or-keyword %s by keyword bound to %r" % (nm, s2.get(nm))
    if kwo and not star:
        try:
            fn(*(args + [("K", kwo[0])]), **dict((nm, v) for nm, v in kwargs.items() if nm != kwo[0]))
            return "keyword-only %s accepted positionally" % kwo[0]
        except TypeError:
            pass
    return None


# ------------------------------------------------------------------------------ C11
def known_flag_bits():
    """CPython's own tables: dis.COMPILER_FLAG_NAMES and __future__."""
    bits = set(dis.COMPILER_FLAG_NAMES)
    for n in _future.all_feature_names:
        f = getattr(_future, n).compiler_flag
        if f:
            bits.add(f)
    return sorted(bits)


K = known_flag_bits()
UNKNOWN = [1 << i for i in range(32) if (1 << i) not in K]
CHUNK = 64


def word_of(mask):
    f = 0
    for i, b in enumerate(K):
        if (mask >> i) & 1:
            f |= b
    return f


def small_subsets(n, maxk):
    for k in range(maxk + 1):
        for comb in itertools.combinations(range(n), k):
            m = 0
            for i in comb:
                m |= 1 << i
            yield m


BASE_SOURCES = [
    ("module", "x = 1\n", []),
    ("classbody", "class C:\n    x = 1\n", [0]),
    ("def", "def f(a, b, c):\n    return a\n", [0]),
    ("defstar", "def f(a, *b, c, **d):\n    return a\n", [0]),
    ("defposonly", "def f(a, /, b, *, c):\n    return a\n" if PY >= (3, 8) else "def f(a, b, *, c):\n    return a\n", [0]),
    ("defkwonly", "def f(**kw):\n    return kw\n", [0]),
    ("defstaronly", "def f(*va):\n    return va\n", [0]),
    ("defnoargs", "def f():\n    return 1\n", [0]),
    ("closure", "def o(a):\n    def f(b):\n        return a + b\n    return f\n", [0]),
    ("inner", "def o(a):\n    def f(b):\n        return a + b\n    return f\n", [0, 0]),
    ("gen", "def f(a):\n    yield a\n", [0]),
    ("coro", "async def f(a):\n    await a\n", [0]),
    ("asyncgen", "async def f(a):\n    yield a\n", [0]),
    ("listcomp", "v = [x for x in a]\n", [0]),
    ("lambda", "f = lambda a, b=1: a\n", [0]),
    ("annotations", "from __future__ import annotations\ndef f(a: int):\n    return a\n", [0]),
]


def base_code(name):
    for n, src, path in BASE_SOURCES:
        if n == name:
            c = compile(src, "<verif>", "exec", dont_inherit=True)
            for i in path:
                c = c.co_consts[_nth_code(c, i)]
            return c
    raise KeyError(name)


def _nth_code(c, i):
    # path element i = index among code-object constants
    idxs = [j for j, k in enumerate(c.co_consts) if type(k) is type(c)]
    return idxs[i]


def flag_alterations(tier):
    """XOR masks over 32 bits: Hamming distance <= 2 (quick)."""
    yield 0
    for i in range(32):
        yield 1 << i
    for i in range(32):
        for j in range(i + 1, 32):
            yield (1 << i) | (1 << j)


def count_triples(nv):
    for a in range(nv + 1):
        for p in range(nv + 1) if PY >= (3, 8) else (0,):
            for k in range(nv + 1):
                yield a, p, k


class C11(Monitor):
    prop = "C11"

    def cases(self):
        # (i) all 2^18 subsets of the known flags, in chunks run in forked children
        n = 1 << len(K)
        for lo in range(0, n, CHUNK):
            yield {"k": "flagwords", "s": "W", "lo": lo, "hi": min(n, lo + CHUNK)}
        # (ii) one unknown bit x small subsets of known flags
        for u in UNKNOWN:
            yield {"k": "unknown", "s": "U", "bit": u, "maxk": 2}
        if self.tier == "thorough":
            for u in UNKNOWN:
                for lo in range(0, n, CHUNK * 16):
                    yield {"k": "unknownall", "s": "UA", "bit": u, "lo": lo, "hi": min(n, lo + CHUNK * 16)}
        # negative words: bit 31 of a C int co_flags shows up as a negative Python int
        yield {"k": "negative", "s": "NEG", "maxk": 2}
        # (iii) header alterations of a family of base code objects
        for name, src, path in BASE_SOURCES:
            yield {"k": "hdrflags", "s": "HF", "base": name}
            yield {"k": "hdrcounts", "s": "HC", "base": name}
            yield {"k": "hdrnames", "s": "HN", "base": name}
            yield {"k": "hdrnested", "s": "HX", "base": name}
            yield {"k": "hdrlines", "s": "HL", "base": name}

    def predicted(self):
        n = 1 << len(K)
        tot = (n + CHUNK - 1) // CHUNK + len(UNKNOWN) + 1 + 5 * len(BASE_SOURCES)
        if self.tier == "thorough":
            tot += len(UNKNOWN) * ((n + CHUNK * 16 - 1) // (CHUNK * 16))
        return tot

    def check(self, case, stats):
        k = case["k"]
        if k in ("flagwords", "unknownall"):
            self.in_child(case, stats)
        elif k in ("unknown", "negative"):
            self.run_words(case, stats)
        elif k == "hdrnested":
            self.hdr_nested(case, stats)
        elif k == "hdrflags":
            self.hdr_flags(case, stats)
        elif k == "hdrlines":
            self.hdr_lines(case, stats)
        elif k == "hdrcounts":
            self.hdr_counts(case, stats)
        elif k == "word":
            self.run_words(case, stats)
        elif k == "hdrnames":
            self.hdr_names(case, stats)
        if k != "flagwords":
            stats.sample(case["s"], case, per=1)
        elif case["lo"] == 0:
            stats.sample("W", case, per=1)

    replay = check

    # -- flag words ---------------------------------------------------------------
    def words(self, case):
        if case["k"] == "flagwords":
            for m in range(case["lo"], case["hi"]):
                yield word_of(m), True
        elif case["k"] == "unknown":
            for m in small_subsets(len(K), case["maxk"]):
                yield word_of(m) | case["bit"], False
        elif case["k"] == "unknownall":
            for m in range(case["lo"], case["hi"]):
                yield word_of(m) | case["bit"], False
        elif case["k"] == "word":
            yield case["word"], case["known"]
        elif case["k"] == "negative":
            yield -1, False
            yield -2, False
            for m in small_subsets(len(K), case["maxk"]):
                yield word_of(m) - (1 << 31), False
                yield word_of(m) - (1 << 32) if word_of(m) else -(1 << 32), False

    def in_child(self, case, stats):
        """enum (3.7/3.8) caches a pseudo-member per composite word and scans that
        cache on every conversion: deal each chunk to a fresh forked child."""
        r, w = os.pipe()
        pid = os.fork()
        if pid == 0:
            try:
                os.close(r)
                sub = type(stats)()
                self.run_words(case, sub)
                out = json.dumps({"n": sub.evaluations, "v": sub.violations, "vt": sub.viol_total, "vk": dict(sub.viol_kinds), "o": dict(sub.outcomes)})
                with os.fdopen(w, "w") as f:
                    f.write(out)
            finally:
                os._exit(0)
        os.close(w)
        with os.fdopen(r) as f:
            data = f.read()
        os.waitpid(pid, 0)
        if not data:
            raise ref.HarnessError("forked flag-word child died on %r" % (case,))
        d = json.loads(data)
        stats.evaluations += d["n"]
        stats.viol_total += d["vt"]
        stats.viol_kinds.update(d["vk"])
        stats.outcomes.update(d["o"])
        stats.violations.extend(d["v"][: max(0, 40 - len(stats.violations))])
        for word, known in self.words(case):
            stats.nontrivial.add(word | ((1 << 40) if not known else 0))

    def run_words(self, case, stats):
        from code_data._flags_data import from_flags_data, to_flags_data

        for word, known in self.words(case):
            stats.evaluations += 1
            if case["k"] in ("unknown", "negative"):
                stats.nontrivial.add((word & ((1 << 40) - 1)) | (1 << 41 if word < 0 else 1 << 40))
            wcase = {"k": "word", "s": case["s"], "word": word, "known": known}
            try:
                names = to_flags_data(word)
            except Exception as e:
                if known:
                    stats.violation(wcase, "known-word-raises", "to_flags_data(0x%x) raises %s" % (word, exc_summary(e)))
                else:
                    stats.outcomes["unknown-bit-raises"] += 1
                continue
            if not known:
                try:
                    back = from_flags_data(set(names))
                except Exception:
                    back = None
                stats.violation(
                    wcase,
                    "unknown-bit-dropped",
                    "to_flags_data(0x%x) returns %s instead of raising (unrepresentable bit 0x%x; converts back to %s)"
                    % (word, short(sorted(names)), word & ~sum(K), hex(back) if back is not None else "error"),
                )
                continue
            if type(names) is not set or any(type(n) is not str for n in names):
                stats.violation(wcase, "names-type", "to_flags_data(0x%x) = %s" % (word, short(names)))
                continue
            if len(names) != bin(word).count("1"):
                stats.violation(wcase, "name-count", "to_flags_data(0x%x) has %d names for %d flags: %s" % (word, len(names), bin(word).count("1"), short(sorted(names))))
                continue
            keep = set(names)
            try:
                back = from_flags_data(names)
            except Exception as e:
                stats.violation(wcase, "from_flags_data-raises", "from_flags_data(%s) raises %s" % (short(sorted(names)), exc_summary(e)))
                continue
            if back != word or type(back) is bool:
                stats.violation(wcase, "word-roundtrip", "0x%x -> %s -> 0x%x" % (word, short(sorted(names)), back))
                continue
            if names != keep:
                stats.violation(wcase, "argument-mutated", "from_flags_data mutated its argument")
                continue
            stats.outcomes["word-ok"] += 1

    # -- header alterations ---------------------------------------------------------
    def judge(self, case, alt, stats, what):
        stats.evaluations += 1
        try:
            with horizon(H):
                d = CodeData.from_code(alt)
        except HorizonHit:
            stats.violation(case, "from_code-no-termination", what)
            return
        except Exception:
            stats.outcomes["from_code-raises"] += 1
            return
        try:
            with horizon(H):
                c2 = d.to_code()
        except HorizonHit:
            stats.violation(case, "to_code-no-termination", what)
            return
        except Exception as e:
            # from_code returned data that cannot be encoded: it did not say what the
            # object says
            stats.violation(dict(case, alt=what), "accepted-but-unencodable", "%s: from_code returned data whose to_code() raises %s" % (what, exc_summary(e)))
            return
        if code_key(c2) == code_key(alt):
            stats.outcomes["reproduced"] += 1
            return
        diff = code_diff(alt, c2)
        hdr = [x for x in diff if x.split(":")[0] in HEADER_ATTRS]
        attrs = sorted(set(x.split(":")[0].split("(")[0] for x in diff))
        stats.violation(
            dict(case, alt=what),
            "silently-lossy:" + ",".join(attrs),
            "%s: from_code returned, but to_code() gives %s" % (what, "; ".join((hdr or diff)[:4])),
        )

    def hdr_flags(self, case, stats):
        base = base_code(case["base"])
        only = case.get("xor")
        for x in [only] if only is not None else flag_alterations(self.tier):
            fl = base.co_flags ^ x
            try:
                alt = ref.code_replace(base, co_flags=fl)
            except Exception:
                stats.outcomes["CodeType-rejects"] += 1
                continue
            stats.nontrivial.add(digest64(("hf", case["base"], x)))
            self.judge(dict(case, xor=x), alt, stats, "%s with co_flags 0x%x (compiler: 0x%x)" % (case["base"], fl, base.co_flags))

    def hdr_lines(self, case, stats):
        """The line table of the base object altered by hand: emptied, cut after its
        first entry, and continued with 1..4 entries at and beyond the end of the
        bytecode (CPython accepts and reports all of them; the data model keeps one)."""
        base = base_code(case["base"])
        attr = "co_lnotab" if PY < (3, 10) else "co_linetable"
        table = getattr(base, attr)
        n = len(base.co_code)
        covered = sum(table[0::2])
        alts = [("emptied", b""), ("first-entry-only", table[:2])]
        for step in (2, 4):
            for line in (1, 0x81 if PY < (3, 10) else 0xFF):
                for extra in (1, 2, 3, 4):
                    if PY < (3, 10):
                        if n - covered > 255:
                            continue
                        t = table + bytes([n - covered, line]) + bytes([step, line]) * (extra - 1)
                    else:
                        t = table + bytes([step, line]) * extra
                    alts.append(("%d entries (+%d bytes, line byte 0x%02x) at/after the end" % (extra, step, line), t))
        only = case.get("lalt")
        for label, t in alts:
            if only is not None and label != only:
                continue
            try:
                alt = ref.code_replace(base, **{attr: t})
            except Exception:
                stats.outcomes["CodeType-rejects"] += 1
                continue
            stats.nontrivial.add(digest64(("hl", case["base"], label)))
            self.judge(dict(case, lalt=label), alt, stats, "%s with line table %s" % (case["base"], label))

    def hdr_nested(self, case, stats):
        """Header fields of a *nested* code object that code.__eq__ ignores (file name,
        stack size, line table) altered by hand; the parent is converted right after the
        unaltered parent in the same process."""
        name = case["base"]
        src, path = [(s_, p_) for n_, s_, p_ in BASE_SOURCES if n_ == name][0]
        if not path:
            stats.outcomes["no-parent"] += 1
            return
        root = compile(src, "<verif>", "exec", dont_inherit=True)
        chain = [root]
        for i in path:
            chain.append(chain[-1].co_consts[_nth_code(chain[-1], i)])
        inner = chain[-1]
        self.judge(dict(case, alt="unaltered"), root, stats, "%s: unaltered parent" % name)
        alts = [
            ("co_stacksize", {"co_stacksize": inner.co_stacksize + 5}),
            ("co_filename", {"co_filename": "<other-file>"}),
            ("line-table", {"co_lnotab" if PY < (3, 10) else "co_linetable": b""}),
        ]
        only = case.get("nalt")
        for label, kw in alts:
            if only is not None and label != only:
                continue
            new = ref.code_replace(inner, **kw)
            # substitute up the chain
            cur = new
            for parent, old_child in zip(reversed(chain[:-1]), reversed(chain[1:])):
                consts = tuple(cur if k is old_child else k for k in parent.co_consts)
                cur = ref.code_replace(parent, co_consts=consts)
            stats.nontrivial.add(digest64(("hx", name, label)))
            self.judge(dict(case, nalt=label), cur, stats, "%s: nested code object with %s altered" % (name, label))

    def hdr_names(self, case, stats):
        """Unusual but legal strings in the name-carrying header fields: each variable
        name (parameters, *args, **kwargs, locals), free/cell variable, co_name and
        co_filename replaced in turn by '', a non-identifier and a lone surrogate."""
        base = base_code(case["base"])
        only = case.get("alt")
        alts = []
        for attr in ("co_varnames", "co_cellvars", "co_freevars", "co_names"):
            t = getattr(base, attr)
            for i in range(len(t)):
                for new in ("", "not an identifier", "\udc80"):
                    if new in t:
                        continue
                    alts.append([attr, i, new])
        for attr in ("co_name", "co_filename"):
            for new in ("", "\udc80"):
                alts.append([attr, None, new])
        for attr, i, new in alts:
            if only is not None and [attr, i, new] != only:
                continue
            if i is None:
                kw = {attr: new}
            else:
                t = getattr(base, attr)
                kw = {attr: t[:i] + (new,) + t[i + 1 :]}
            try:
                alt = ref.code_replace(base, **kw)
            except Exception:
                stats.outcomes["CodeType-rejects"] += 1
                continue
            stats.nontrivial.add(digest64(("hn", case["base"], attr, i, new)))
            self.judge(dict(case, alt=[attr, i, new]), alt, stats, "%s with %s[%s] = %r" % (case["base"], attr, i, new))

    def hdr_counts(self, case, stats):
        base = base_code(case["base"])
        nv = len(base.co_varnames)
        only = case.get("triple")
        # no flag change, each single flag bit, and both function flags cleared at once
        masks = [0] + [1 << i for i in range(32)] + [0x3]
        for a, p, k in [tuple(only)] if only is not None else count_triples(min(nv, 4)):
            for x in [case["xor"]] if only is not None else masks:
                kw = {"co_argcount": a, "co_kwonlyargcount": k, "co_flags": base.co_flags ^ x}
                if PY >= (3, 8):
                    kw["co_posonlyargcount"] = p
                try:
                    alt = ref.code_replace(base, **kw)
                except Exception:
                    stats.outcomes["CodeType-rejects"] += 1
                    continue
                stats.nontrivial.add(digest64(("hc", case["base"], a, p, k, x)))
                self.judge(
                    dict(case, triple=[a, p, k], xor=x),
                    alt,
                    stats,
                    "%s with argcount=%d posonly=%d kwonly=%d flags^0x%x" % (case["base"], a, p, k, x),
                )


MONITORS = {"C04": C04, "C11": C11}
