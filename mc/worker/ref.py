# Reference readers (R-RAW, R-DIS, R-LINE, R-SIG, R-CKEY).  Python 3.7 compatible.
# These use CPython's own tables/functions and share no code with the library.
from __future__ import print_function

import ctypes
import dis
import inspect
import sys
import types

from strict import skey

PY = sys.version_info[:2]
JUMP_UNIT = 2 if PY >= (3, 10) else 1  # jump operands count code units from 3.10
EXT = dis.EXTENDED_ARG
HAVE_ARGUMENT = dis.HAVE_ARGUMENT
HASCONST = frozenset(dis.hasconst)
HASNAME = frozenset(dis.hasname)
HASLOCAL = frozenset(dis.haslocal)
HASFREE = frozenset(dis.hasfree)
HASJABS = frozenset(dis.hasjabs)
HASJREL = frozenset(dis.hasjrel)


class HarnessError(Exception):
    """The harness's own oracle is inconsistent (never a library violation)."""


def raw_instructions(co_code):
    """R-RAW: [(first_offset, n_units, opcode, arg)] with EXTENDED_ARG folded the way
    ceval does (oparg is a C int: wraps at 32 bits)."""
    out = []
    ext = 0
    n = 0
    first = 0
    for i in range(0, len(co_code), 2):
        op = co_code[i]
        if n == 0:
            first = i
        arg = co_code[i + 1] | ext
        n += 1
        if op == EXT:
            ext = (arg << 8) & 0xFFFFFFFF
        else:
            if arg >= 0x80000000:
                arg -= 0x100000000
            out.append((first, n, op, arg))
            ext = 0
            n = 0
    if n:
        raise HarnessError("bytecode ends inside an EXTENDED_ARG prefix")
    return out


def resolve(code, raw=None, nan_ident=False):
    """R-DIS: symbolic stream [(opname, kind, value)], and the index of the target
    instruction for jumps.  kind in none/raw/name/local/cell/free/const/jabs/jrel."""
    if raw is None:
        raw = raw_instructions(code.co_code)
    off2idx = {}
    for idx, (first, n, op, arg) in enumerate(raw):
        off2idx[first] = idx
    ncell = len(code.co_cellvars)
    out = []
    for idx, (first, n, op, arg) in enumerate(raw):
        name = dis.opname[op]
        if op in HASCONST:
            item = (name, "const", skey(code.co_consts[arg], nan_ident))
        elif op in HASNAME:
            item = (name, "name", code.co_names[arg])
        elif op in HASLOCAL:
            item = (name, "local", code.co_varnames[arg])
        elif op in HASFREE:
            if arg < ncell:
                item = (name, "cell", code.co_cellvars[arg])
            else:
                item = (name, "free", code.co_freevars[arg - ncell])
        elif op in HASJABS:
            item = (name, "jabs", off2idx.get(arg * JUMP_UNIT, ("bad", arg * JUMP_UNIT)))
        elif op in HASJREL:
            tgt = first + 2 * n + arg * JUMP_UNIT
            item = (name, "jrel", off2idx.get(tgt, ("bad", tgt)))
        elif op < HAVE_ARGUMENT:
            item = (name, "none", None)
        else:
            item = (name, "raw", arg)
        out.append(item)
    return out


def dis_selfcheck(code, raw, sym):
    """Guard for the oracle: R-RAW/R-DIS must agree with dis.get_instructions."""
    di = [i for i in dis.get_instructions(code) if i.opcode != EXT]
    if len(di) != len(raw):
        raise HarnessError("R-RAW and dis disagree on instruction count")
    for (first, n, op, arg), (name, kind, val), d in zip(raw, sym, di):
        if d.opcode != op or d.offset != first + 2 * (n - 1):
            raise HarnessError("R-RAW and dis disagree at offset %d" % first)
        if op >= HAVE_ARGUMENT and d.arg != (arg & 0xFFFFFFFF if arg < 0 else arg):
            # dis does not wrap; only compare when no wrap happened
            if arg >= 0:
                raise HarnessError("R-RAW and dis disagree on arg at %d" % first)
        if kind in ("name", "local", "cell", "free"):
            if d.argval != val:
                raise HarnessError("R-DIS and dis disagree on %s at %d" % (kind, first))
        elif kind == "const":
            if skey(d.argval) != skey(code.co_consts[arg]):
                raise HarnessError("R-DIS and dis disagree on const at %d" % first)
        elif kind in ("jabs", "jrel"):
            if isinstance(val, int) and raw[val][0] != d.argval:
                raise HarnessError("R-DIS and dis disagree on jump at %d" % first)


_addr2line = ctypes.pythonapi.PyCode_Addr2Line
_addr2line.argtypes = [ctypes.py_object, ctypes.c_int]
_addr2line.restype = ctypes.c_int


def addr2line(code, offset):
    """R-LINE: the line CPython itself assigns (tracebacks, tracing); None if none."""
    r = _addr2line(code, offset)
    if PY >= (3, 10) and r < 0:
        return None
    return r


def lines_selfcheck(code, raw):
    """Cross-check R-LINE with co_lines() (3.10) / dis.findlinestarts (<=3.9)."""
    if PY >= (3, 10):
        ranges = list(code.co_lines())
        ri = 0
        for first, n, op, arg in raw:
            while ri < len(ranges) and ranges[ri][1] <= first:
                ri += 1
            if ri < len(ranges) and ranges[ri][0] <= first < ranges[ri][1]:
                if addr2line(code, first) != ranges[ri][2]:
                    raise HarnessError(
                        "PyCode_Addr2Line and co_lines disagree at %d" % first
                    )
    else:
        starts = list(dis.findlinestarts(code))
        for off, line in starts:
            if off < len(code.co_code) and addr2line(code, off) != line:
                # findlinestarts drops entries that do not change the line; any entry
                # it does report must agree
                raise HarnessError(
                    "PyCode_Addr2Line and findlinestarts disagree at %d" % off
                )


CO_VARARGS, CO_VARKEYWORDS = 0x04, 0x08
CO_OPTIMIZED, CO_NEWLOCALS, CO_NESTED, CO_NOFREE = 0x01, 0x02, 0x10, 0x40
CO_GENERATOR, CO_COROUTINE, CO_ITERABLE_COROUTINE, CO_ASYNC_GENERATOR = (
    0x20,
    0x80,
    0x100,
    0x200,
)


def sig_from_header(code):
    """R-SIG (a): parameters in signature order with CPython's binding kinds, read
    from the header the way CPython lays locals out:
    positional..., keyword-only..., *args, **kwargs."""
    vn = code.co_varnames
    posonly = getattr(code, "co_posonlyargcount", 0)
    argc = code.co_argcount
    kwonly = code.co_kwonlyargcount
    i = argc + kwonly
    star = None
    dstar = None
    if code.co_flags & CO_VARARGS:
        star = vn[i]
        i += 1
    if code.co_flags & CO_VARKEYWORDS:
        dstar = vn[i]
        i += 1
    out = []
    for n in vn[:posonly]:
        out.append((n, "POSITIONAL_ONLY"))
    for n in vn[posonly:argc]:
        out.append((n, "POSITIONAL_OR_KEYWORD"))
    if star is not None:
        out.append((star, "VAR_POSITIONAL"))
    for n in vn[argc : argc + kwonly]:
        out.append((n, "KEYWORD_ONLY"))
    if dstar is not None:
        out.append((dstar, "VAR_KEYWORD"))
    return out


def make_function(code):
    closure = None
    if code.co_freevars:
        closure = tuple(_cell() for _ in code.co_freevars)
    return types.FunctionType(code, {}, code.co_name, None, closure)


def _cell():
    x = 0
    return (lambda: x).__closure__[0]


def sig_from_inspect(code):
    """R-SIG (b): inspect.signature of a function built from the code.  inspect
    presents implicit '.N' parameters as positional-only 'implicitN'; that single
    presentation rule is undone here (the binding kind per the code object is
    positional-or-keyword)."""
    fn = make_function(code)
    sig = inspect.signature(fn)
    out = []
    vn = code.co_varnames
    for pos, p in enumerate(sig.parameters.values()):
        name, kind = p.name, p.kind.name
        if name.startswith("implicit") and pos < len(vn) and vn[pos].startswith("."):
            name = vn[pos]
            if pos >= getattr(code, "co_posonlyargcount", 0):
                kind = "POSITIONAL_OR_KEYWORD"
        out.append((name, kind))
    return out, fn


def function_kind(fn):
    """inspect's classification of a function object."""
    if inspect.isasyncgenfunction(fn):
        return "ASYNC_GENERATOR"
    if inspect.iscoroutinefunction(fn):
        return "COROUTINE"
    if inspect.isgeneratorfunction(fn):
        return "GENERATOR"
    return None


try:
    _constkey = ctypes.pythonapi._PyCode_ConstantKey
    _constkey.argtypes = [ctypes.py_object]
    _constkey.restype = ctypes.py_object
    HAVE_CKEY = True
except AttributeError:  # not exported by this interpreter
    _constkey = None
    HAVE_CKEY = False


def _nan_merge(v):
    t = type(v)
    if t is float:
        return "nan" if v != v else v
    if t is complex:
        return ("cx", "nan" if v.real != v.real else v.real, "nan" if v.imag != v.imag else v.imag) if (
            v.real != v.real or v.imag != v.imag
        ) else v
    if t is tuple:
        return tuple([_nan_merge(x) for x in v])
    if t is frozenset:
        return frozenset([_nan_merge(x) for x in v])
    return v


def constant_class(v):
    """R-CKEY: CPython's own partition of constants (_PyCode_ConstantKey), with all
    NaNs merged into one class as the properties say.  Returns a hashable key; two
    constants are 'the same constant' iff their keys are equal."""
    return _ck(v)


def _ck(v):
    # _PyCode_ConstantKey on a NaN-free rendering would lose the NaN; so split:
    # replace every NaN by a marker *string that cannot collide* in a parallel
    # structure, and keep CPython's key for the NaN-free remainder.
    t = type(v)
    if t is float:
        if v != v:
            return ("<nan>",)
        return ("k", _constkey(v))
    if t is complex:
        re_nan, im_nan = v.real != v.real, v.imag != v.imag
        if re_nan or im_nan:
            return (
                "<cnan>",
                ("<nan>",) if re_nan else ("k", _constkey(v.real)),
                ("<nan>",) if im_nan else ("k", _constkey(v.imag)),
            )
        return ("k", _constkey(v))
    if t is tuple:
        return ("t", tuple([_ck(x) for x in v]))
    if t is frozenset:
        return ("fs", frozenset([_ck(x) for x in v]))
    return ("k", _constkey(v))


def code_replace(code, **kw):
    """code.replace() that also works on 3.7."""
    if hasattr(code, "replace"):
        return code.replace(**kw)
    names = [
        "co_argcount",
        "co_kwonlyargcount",
        "co_nlocals",
        "co_stacksize",
        "co_flags",
        "co_code",
        "co_consts",
        "co_names",
        "co_varnames",
        "co_filename",
        "co_name",
        "co_firstlineno",
        "co_lnotab",
        "co_freevars",
        "co_cellvars",
    ]
    vals = [kw.get(n, getattr(code, n)) for n in names]
    return types.CodeType(*vals)


def binding_stub(code):
    """R-SIG (c): a function with the same header (counts, flags, varnames) whose body
    returns its parameter slots as a tuple, so that calling it shows how CPython's
    own argument binding treats each parameter."""
    import dis as _dis

    n = code.co_argcount + code.co_kwonlyargcount
    if code.co_flags & CO_VARARGS:
        n += 1
    if code.co_flags & CO_VARKEYWORDS:
        n += 1
    body = []
    for i in range(n):
        body += [_dis.opmap["LOAD_FAST"], i]
    body += [_dis.opmap["BUILD_TUPLE"], n, _dis.opmap["RETURN_VALUE"], 0]
    flags = code.co_flags & (CO_VARARGS | CO_VARKEYWORDS) | CO_OPTIMIZED | CO_NEWLOCALS | CO_NOFREE
    kw = dict(
        co_code=bytes(body),
        co_flags=flags,
        co_consts=(None,),
        co_names=(),
        co_varnames=tuple(code.co_varnames[:n]),
        co_nlocals=n,
        co_stacksize=n + 1,
        co_freevars=(),
        co_cellvars=(),
    )
    kw["co_linetable" if PY >= (3, 10) else "co_lnotab"] = b""
    stub = code_replace(code, **kw)
    return types.FunctionType(stub, {}), n
