# Worker core: statistics, horizon, monitor base classes.  Python 3.7 compatible.
from __future__ import print_function

import array
import collections
import json
import signal
import sys
import traceback

from strict import digest64, short

PY = sys.version_info[:2]
PYS = "%d.%d" % PY


class HorizonHit(BaseException):
    """Raised by the per-call timer: 'does not terminate' is an observable outcome."""


def _on_alarm(signum, frame):
    raise HorizonHit()


signal.signal(signal.SIGALRM, _on_alarm)


class horizon(object):
    def __init__(self, seconds):
        self.seconds = seconds

    def __enter__(self):
        signal.setitimer(signal.ITIMER_REAL, self.seconds)

    def __exit__(self, *a):
        signal.setitimer(signal.ITIMER_REAL, 0)
        return False


MAX_VIOL_RECORDS = 40


class Stats(object):
    def __init__(self):
        self.enumerated = collections.Counter()  # per stratum, this shard
        self.skipped = collections.Counter()  # reason -> n
        self.evaluations = 0
        self.nontrivial = set()  # 64-bit digests
        self.reach = collections.Counter()
        self.outcomes = collections.Counter()
        self.violations = []
        self.viol_total = 0
        self.viol_kinds = collections.Counter()
        self.samples = {}
        self.horizon_hits = 0
        self.states = 0
        self.transitions = 0
        self.traces_validated = 0
        self.extra = {}
        self.where = None  # (shard, nshards, seed, idx) of the case being evaluated

    def sample(self, stratum, obj, per=2):
        l = self.samples.setdefault(stratum, [])
        if len(l) < per:
            l.append(obj)

    def nontriv(self, key):
        self.nontrivial.add(digest64(key))

    def violation(self, case, kind, detail, **more):
        """Record one violation. kind: short classification used for known-finding
        matching and for grouping; detail: human-readable explanation."""
        self.viol_total += 1
        self.viol_kinds[kind] += 1
        # keep the first few of every kind so rare kinds are not crowded out
        if self.viol_kinds[kind] <= 3 and len(self.violations) < MAX_VIOL_RECORDS:
            rec = {"case": case, "kind": kind, "detail": detail, "py": PYS}
            if self.where is not None:
                rec["history"] = {"shard": self.where[0], "nshards": self.where[1], "seed": self.where[2], "idx": self.where[3], "stage": self.where[4]}
            rec.update(more)
            self.violations.append(rec)

    def dump(self, path):
        d = {
            "py": PYS,
            "enumerated": dict(self.enumerated),
            "skipped": dict(self.skipped),
            "evaluations": self.evaluations,
            "reach": dict(self.reach),
            "outcomes": dict(self.outcomes),
            "violations": self.violations,
            "viol_total": self.viol_total,
            "viol_kinds": dict(self.viol_kinds),
            "samples": self.samples,
            "horizon_hits": self.horizon_hits,
            "states": self.states,
            "transitions": self.transitions,
            "traces_validated": self.traces_validated,
            "extra": self.extra,
        }
        with open(path + ".digests", "wb") as f:
            array.array("Q", sorted(self.nontrivial)).tofile(f)
        with open(path, "w") as f:
            json.dump(d, f)


def exc_summary(e):
    tb = traceback.extract_tb(sys.exc_info()[2])
    where = ""
    for fr in reversed(tb):
        if "code_data" in fr.filename:
            where = " at %s:%d" % (fr.filename.rsplit("/", 1)[-1], fr.lineno)
            break
    return "%s: %s%s" % (type(e).__name__, short(str(e), 160), where)


def exc_in_library(e):
    """True if the innermost frame of the traceback is inside code_data (or the
    exception passed through it): the library raised, not the harness."""
    tb = traceback.extract_tb(sys.exc_info()[2])
    return any("/code_data/" in fr.filename for fr in tb)


class Monitor(object):
    """A check = cases() (closed-form enumerator) + predicted() + check(case, stats)."""

    prop = None
    level = "exploration"
    interpreters = ("3.7", "3.8", "3.9", "3.10")

    def __init__(self, tier):
        self.tier = tier

    def cases(self):
        raise NotImplementedError

    def predicted(self):
        """Closed-form cardinality of cases() for this interpreter (None: unknown)."""
        return None

    def check(self, case, stats):
        raise NotImplementedError

    def required_reach(self):
        return []
