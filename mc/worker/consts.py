# S-CONST: the constant universe.  Python 3.7 compatible.
# build() constructs every value afresh on each call, so two calls give independent
# copies (no identity shared between NaNs, tuples, big ints, ...).
from __future__ import print_function

import struct
import sys


def atoms():
    nan = float("nan")
    inf = float("inf")
    a = [
        None,
        True,
        False,
        0,
        1,
        -1,
        2 ** 53 - 1,
        -(2 ** 53 - 1),
        2 ** 53,
        -(2 ** 53),
        2 ** 53 + 1,
        -(2 ** 53 + 1),
        2 ** 64,
        -(2 ** 200),
        10 ** 4000,
        0.0,
        -0.0,
        1.0,
        1.5,
        1e308,
        5e-324,
        inf,
        -inf,
        nan,
        0j,
        complex(-0.0, 0.0),
        complex(0.0, -0.0),
        complex(-0.0, -0.0),
        complex(float("nan"), inf),
        complex(1, -inf),
        complex(0.0, float("nan")),
        1j,
        "",
        "a",
        "\xe9",
        "\U0001F600",
        "\udc80",
        "a\ud800b",
        "\x00",
        "nan",
        "int",
        "frozenset",
        "1",
        b"",
        b"a",
        b"\xff\x00",
        Ellipsis,
        # NaNs with the sign bit set (what x86 folds 1e999-1e999 into) and a payload
        -float("nan"),
        complex(-float("nan"), 0.0),
        struct.unpack(">d", bytes([0x7F, 0xF8, 0, 0, 0, 0, 0, 1]))[0],
        # a high surrogate directly followed by a low one: still two unencodable code
        # points in a Python str (JSON text would fuse them into one character)
        "\ud83d\ude00",
        # complex numbers that differ only in the sign of a zero part while the other
        # part is not zero
        complex(1.0, -0.0),
        complex(1.0, 0.0),
        complex(-0.0, 1.0),
    ]
    return a


CORE_IDX = [0, 1, 3, 4, 15, 16, 17, 23, 33, 44, 46, 36]  # None True 0 1 0.0 -0.0 1.0 nan "a" b"a" ... surrogate


def build(tier="quick"):
    """List of (recipe, value).  recipe is a JSON-able description used in replays."""
    A = atoms()
    out = [(["atom", i], v) for i, v in enumerate(A)]
    core = [(i, A[i]) for i in CORE_IDX]
    # fresh atoms for containers (no identity shared with the bare atoms)
    A2 = atoms()
    for i, v in enumerate(A2):
        out.append((["tuple1", i], (v,)))
    A3 = atoms()
    for i, v in enumerate(A3):
        out.append((["fset1", i], frozenset([v])))
    pair_src = list(enumerate(atoms())) if tier == "thorough" else [(i, atoms()[i]) for i in CORE_IDX]
    for i, u in pair_src:
        B = atoms()
        for j in ([k for k, _ in pair_src]):
            out.append((["pair", i, j], (u, B[j])))
    # one more level of nesting over the core
    for i in CORE_IDX:
        B = atoms()
        C = atoms()
        out.append((["nest-tt", i], ((B[i],), C[i])))
        out.append((["nest-tf", i], (frozenset([B[i]]),)))
        out.append((["nest-ft", i], frozenset([(B[i], C[i])])))
        out.append((["nest-ff", i], frozenset([frozenset([B[i]]), C[i]])))
    out.append((["empty-tuple"], ()))
    out.append((["empty-fset"], frozenset()))
    out.append((["fset-mixed"], frozenset([1, 1.5, "a", b"a", None, (1, 2)])))
    out.append((["fset-zero-kinds"], frozenset([0, "0", b"0"])))
    return out


def from_recipe(r, tier="quick"):
    for rec, v in build(tier):
        if rec == r:
            return v
    raise KeyError(r)


def size(tier="quick"):
    n = len(atoms())
    npair = n if tier == "thorough" else len(CORE_IDX)
    return 3 * n + npair * npair + 4 * len(CORE_IDX) + 4
