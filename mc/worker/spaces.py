# E2: closed-form enumerators of initial states.  Python 3.7 compatible.
#
# A *case* is a small JSON-able dict; build_code(case) turns it into a root code
# object on the running interpreter (or raises SyntaxError when the running
# interpreter lacks the construct: counted as skipped, never as a pass).
from __future__ import print_function

import itertools
import os
import sys

PY = sys.version_info[:2]

# --------------------------------------------------------------------------- S-PROG
ATOMS = [
    "a",
    "1",
    "256",
    "-0.0",
    '"s"',
    'b"s"',
    "(1, 2.0)",
    "None",
    "...",
    "(1e999-1e999)",
    "2**64",
    "a.b",
]

# expression constructors with one hole
XCONS = [
    "-$E",
    "a+$E",
    "($E if a else b)",
    "(a and $E)",
    "(a or $E)",
    "(a<$E<b)",
    "f($E)",
    "f($E,*a,k=b,**c)",
    "f(\n$E)",
    "(lambda: $E)",
    "[$E for x in a]",
    "list($E for x in a if x)",
    "{x: $E for x in a}",
    "($E in {1, 2})",
    'f"{ $E !r:>{b}}"',
    "[$E, *a]",
    "(y := $E)",
]


def exprs_depth(d):
    """All expressions of depth <= d (depth 0 = atoms)."""
    level = list(ATOMS)
    allx = list(level)
    for _ in range(d):
        nxt = [x.replace("$E", e) for x in XCONS for e in level]
        allx.extend(nxt)
        level = nxt
    return allx


def n_exprs_depth(d):
    n, level = len(ATOMS), len(ATOMS)
    for _ in range(d):
        level = len(XCONS) * level
        n += level
    return n


# statement constructors: list of lines; $E = expression hole, a line '$B' (with its
# indentation) = body hole.
T = [
    ["$E"],
    ["v = $E"],
    ["v += $E"],
    ["v: int = $E"],
    ["from __future__ import annotations", "v: a.b = $E"],
    ["from __future__ import generator_stop, unicode_literals, division", "v = $E"],
    ["from __future__ import barry_as_FLUFL", "v = a <> $E"],
    ["v = 1", "del v"],
    ["a.attr = $E"],
    ["a[0] = $E"],
    ["p, (q, *r) = $E"],
    ["global g1", "g1 = $E"],
    ["v = 0", "def inner():", "    nonlocal v", "    v = $E", "    $B"],
    ["if a:", "    $B", "else:", "    v = $E"],
    ["if 0:", "    v1 = 'dead'", "    $B", "v2 = $E"],
    ["while a:", "    $B", "    if b: break", "    if c: continue", "else:", "    v = $E"],
    ["for x in a:", "    $B", "    if b: break", "else:", "    v = $E"],
    ["try:", "    $B", "except E1 as e:", "    v = $E", "except (E2, E3):", "    raise"],
    ["try:", "    $B", "finally:", "    v = $E"],
    ["with a as w, b:", "    $B", "    v = $E"],
    ["async with a as w:", "    $B"],
    ["async for x in a:", "    $B"],
    ["v = await $E"],
    ["def fn(p, q=$E, *r, k=1, **kw):", "    'doc'", "    $B", "    return p"],
    ["@deco", "def fn(p):", "    $B"],
    ["async def fn(p):", "    $B", "    await p"],
    ["def gen(p):", "    $B", "    yield $E"],
    ["async def agen(p):", "    $B", "    yield $E"],
    ["class C($E):", "    'cdoc'", "    def m(self):", "        $B", "        return super().m()"],
    ["def outer(p):", "    q = $E", "    def inner():", "        $B", "        return p + q", "    return inner"],
    ["return $E", "def dead(): pass"],
    ["raise $E"],
    ["raise a from $E"],
    ["assert a, $E"],
    ["import m1, m2.sub as ms"],
    ["from m1 import n1 as n2, n3"],
    ["from . import rel"],
    ["'a docstring'"],
    ["pass"],
    ["print($E)"],
    ["yield $E"],
    ["v = yield from $E"],
    ["v = lambda p, *q, k=$E: (p, k)"],
    ["def fd():", "    return $E", "    $B"],
    ["v = [(lambda: $E), (lambda: $E)]"],
    ["def fe(p):", '    ""', "    $B", '    return ("", $E)'],
    ["def fp(p, /, q=$E, *, k):", "    loc = 1", "    $B", "    return (q, loc, k)"],
    # operators and displays that have opcodes of their own
    ["v = (a << 1, a >> 1, a ^ b, a | b, a & b, a - b, a * b, a / b, a // b, a % b, a ** b, a @ $E)"],
    ["v <<= $E", "v >>= 1", "v ^= 1", "v &= 1", "v |= 1", "v -= 1", "v *= 1", "v /= 1", "v //= 1", "v %= 1", "v **= 1", "v @= a"],
    ["v = {**a, 'k': $E, **b}", "w = {*a, $E, *b}", "u = {x for x in a}", "f(**a, **b)", "f(*a, *b)"],
    ["global g2", "g2 = $E", "del g2", "a[0] += 1", "a.b -= 1", "del a[0], a.b"],
    ["for x in a:", "    try:", "        $B", "        continue", "    finally:", "        v = $E"],
    # structural pattern matching (3.10)
    ["match $E:", "    case [p, q, *r]:", "        $B", "    case {'k': p, **rest}:", "        v = 1", "    case C(p, q=1) | D(p, q=2):", "        v = 2", "    case 1 | 2.0 | 'three' if a:", "        v = 3", "    case (p, q) as w:", "        v = 4", "    case _:", "        v = 5"],
    # deleting captured variables (DELETE_DEREF), explicitly and through `except ... as`
    ["def od(p):", "    cv = 1", "    cw = $E", "    def inner():", "        return (cw, cv, p)", "    del cv", "    $B", "    return inner"],
    ["def oe():", "    try:", "        $B", "    except E1 as err:", "        def inner():", "            return err", "        return inner"],
    # a docstring that is not valid UTF-8 (lone surrogate)
    ["def fs(p):", '    "\\udc80doc"', "    $B", "    return p"],
    # dead code after the last live instruction on a later line: <=3.9 keep a line-table
    # entry at len(co_code) while every table stays in first-use order
    ["def ge():", "    return", "    yield"],
    # a class body that reads __class__ as a free variable while one of its methods
    # makes it a cell of the body: the same name in co_cellvars and co_freevars
    ["class CC:", "    def m(self):", "        class DD(CC):", "            y = __class__", "            def n(self):", "                $B", "                return super().n()", "        return DD"],
]

# contexts: (name, header lines, indent)
K = [
    ("module", [], ""),
    ("def", ["def ctx(a, b=1, *c):"], "    "),
    ("asyncdef", ["async def ctx(a, b=1):"], "    "),
    ("class", ["class Ctx:"], "    "),
    ("nested", ["def ctx0(a, zz):", "    def ctx(b):", "        zz"], "        "),
    ("loop", ["def ctx(a, b=1):", "    for it in a:"], "        "),
    ("tryfin", ["def ctx(a, b=1):", "    try:", "        a", "    finally:"], "        "),
]
KNAMES = [k[0] for k in K]


def has_E(t):
    return any("$E" in l for l in t)


def has_B(t):
    return any(l.strip() == "$B" for l in t)


def render(t, expr="a", body=None):
    """Lines of statement template t with holes filled."""
    if body is None:
        body = ["pass"]
    out = []
    for l in t:
        if l.strip() == "$B":
            ind = l[: len(l) - len(l.lstrip())]
            for b in body:
                out.append(ind + b)
        elif "$E" in l:
            e = expr
            if "\n" in e:
                # continuation lines need no indentation inside brackets
                pass
            out.append(l.replace("$E", e))
        else:
            out.append(l)
    return out


def in_context(kname, lines):
    for name, hdr, ind in K:
        if name == kname:
            body = []
            for l in lines:
                # an expression may contain a newline (inside brackets)
                body.append(ind + l)
            if name == "module":
                return "\n".join(body) + "\n"
            return "\n".join(hdr + body) + "\n"
    raise KeyError(kname)


def prog_Pa():
    """T x expressions of depth<=1 x {module, def}; templates without an expression
    hole are produced once."""
    ex = exprs_depth(1)
    for ti, t in enumerate(T):
        xs = ex if has_E(t) else [None]
        for e in xs:
            for k in ("module", "def"):
                yield {"k": "src", "s": "Pa", "src": in_context(k, render(t, e or "a"))}


def n_prog_Pa():
    ne = n_exprs_depth(1)
    return sum((ne if has_E(t) else 1) * 2 for t in T)


def prog_Pb():
    """ordered pairs T x T with default holes x all contexts."""
    for t1 in T:
        for t2 in T:
            for k in KNAMES:
                yield {"k": "src", "s": "Pb", "src": in_context(k, render(t1) + render(t2))}


def n_prog_Pb():
    return len(T) * len(T) * len(K)


def prog_Pc():
    """T nested in T's body hole x 3 contexts."""
    for t1 in T:
        if not has_B(t1):
            continue
        for t2 in T:
            for k in ("module", "def", "class"):
                yield {"k": "src", "s": "Pc", "src": in_context(k, render(t1, "a", render(t2)))}


def n_prog_Pc():
    return sum(1 for t in T if has_B(t)) * len(T) * 3


def prog_Pd_expr2():
    ex = exprs_depth(2)
    n1 = n_exprs_depth(1)
    ex = ex[n1:]  # depth exactly 2 (depth<=1 is P-a)
    for t in T:
        if not has_E(t):
            continue
        for e in ex:
            for k in ("module", "def"):
                yield {"k": "src", "s": "Pd2", "src": in_context(k, render(t, e))}


def n_prog_Pd_expr2():
    return sum(1 for t in T if has_E(t)) * (n_exprs_depth(2) - n_exprs_depth(1)) * 2


def prog_Pd_triples():
    for t1 in T:
        for t2 in T:
            for t3 in T:
                for k in ("module", "def", "class"):
                    yield {
                        "k": "src",
                        "s": "Pd3",
                        "src": in_context(k, render(t1) + render(t2) + render(t3)),
                    }


def n_prog_Pd_triples():
    return len(T) ** 3 * 3


def prog_Pd_nest3():
    TB = [t for t in T if has_B(t)]
    for t1 in TB:
        for t2 in TB:
            for t3 in T:
                yield {
                    "k": "src",
                    "s": "Pdn",
                    "src": in_context("def", render(t1, "a", render(t2, "a", render(t3)))),
                }


def n_prog_Pd_nest3():
    nb = sum(1 for t in T if has_B(t))
    return nb * nb * len(T)


def spread(lst, n):
    """n elements of lst spread evenly over its whole length (all of it if shorter)."""
    if len(lst) <= n:
        return list(lst)
    return [lst[(i * len(lst)) // n] for i in range(n)]


def with_modes(cases, optimize=(0,), modes=("exec",)):
    for c in cases:
        for m in modes:
            for o in optimize:
                d = dict(c)
                d["mode"] = m
                d["opt"] = o
                yield d


# ------------------------------------------------- constants that are == but not the same
EQ_GROUPS = [
    ["0.0", "-0.0", "0", "False", "0j", "-0j"],
    ["1", "1.0", "True", "(1+0j)"],
    ["(1, 2)", "(1.0, 2.0)", "(True, 2)", "(1, 2.0)"],
    ["x in {1}", "x in {1.0}", "x in {True}"],
    ["'a'", "b'a'"],
    ["(0.0,)", "(-0.0,)", "(0,)"],
    ["(1e999-1e999)", "-(1e999-1e999)", "1e999*0"],
    ["(1+0j)", "-(-1+0j)"],
    ["(-0.0+0j)", "(0.0-0j)", "0j", "-0j"],
]


def prog_Q():
    """Programs holding constants that compare equal with == but are different
    constants, alone and in ordered pairs (one code object and two code objects)."""
    for g in EQ_GROUPS:
        for a in g:
            yield {"k": "src", "s": "Q", "src": "v = %s\n" % a, "mode": "exec", "opt": 0}
            for b in g:
                if a == b:
                    continue
                yield {"k": "src", "s": "Q", "src": "v = %s\nw = %s\n" % (a, b), "mode": "exec", "opt": 0}
                yield {"k": "src", "s": "Q", "src": "def f():\n    return %s\ndef g():\n    return %s\n" % (a, b), "mode": "exec", "opt": 0}


    # A, A', A again: two table entries with the same key, the first one used again
    # after the second (in one block, and in a `finally` body, which 3.9+ duplicate)
    for g in EQ_GROUPS:
        for a in g:
            for b in g:
                if a == b:
                    continue
                yield {"k": "src", "s": "Q", "src": "v = %s\nw = %s\nu = %s\n" % (a, b, a), "mode": "exec", "opt": 0}
                yield {"k": "src", "s": "Q", "src": "try:\n    f()\nfinally:\n    v = %s\n    w = %s\n" % (a, b), "mode": "exec", "opt": 0}
    # an unreferenced nested code object that is equal (NaNs identified) to a
    # referenced sibling
    yield {"k": "src", "s": "Q", "src": "def h():\n    return (lambda: 1e999-1e999); cb = lambda: 1e999-1e999\n", "mode": "exec", "opt": 0}
    yield {"k": "src", "s": "Q", "src": "def h():\n    assert True or (lambda: 1e999-1e999); return lambda: 1e999-1e999\n", "mode": "exec", "opt": 0}
    yield {"k": "src", "s": "Q", "src": "def h(x):\n    while x or (lambda: 1e999-1e999):\n        x = lambda: 1e999-1e999\n    return (1e999-1e999, -(1e999-1e999))\n", "mode": "exec", "opt": 0}
    # equal nested code objects in different parents; a repeated code constant followed
    # by a new one in the same block
    yield {"k": "src", "s": "Q", "src": "f = lambda: (lambda: 1); g = lambda x: (lambda: 1)\n", "mode": "exec", "opt": 0}
    yield {"k": "src", "s": "Q", "src": "fs = [lambda: 1, lambda: 1, lambda: 2]\n", "mode": "exec", "opt": 0}
    yield {"k": "src", "s": "Q", "src": "def h():\n    return [lambda: 1, lambda: 2, lambda: 1, lambda: 3, (lambda: 2)]\n", "mode": "exec", "opt": 0}
    # the ignored operand byte of argument-less instructions set by hand (NoArg(_arg))
    yield {"k": "src", "s": "Q", "src": "def f(a):\n    a[0]\n    return -a\nx = f\n", "mode": "exec", "opt": 0, "patch_noarg": 7}
    yield {"k": "src", "s": "Q", "src": "x = -a\n", "mode": "exec", "opt": 0, "patch_noarg": 255}
    # different sibling code objects on one line whose constants have colliding hashes
    for a, b in HASH_COLLIDING:
        for x, y in ((a, b), (b, a)):
            yield {"k": "src", "s": "Q", "src": "v = [lambda: %s, lambda: %s]\n" % (x, y), "mode": "exec", "opt": 0}
            yield {"k": "src", "s": "Q", "src": "def h():\n    'doc'\n    return [lambda: %s, lambda: %s]\n" % (x, y), "mode": "exec", "opt": 0}


HASH_COLLIDING = [("-1", "-2"), ("0", "2305843009213693951"), ("1", "2305843009213693952"), ("0.0", "0")]


def n_prog_Q():
    return sum(len(g) + 4 * len(g) * (len(g) - 1) for g in EQ_GROUPS) + 8 + 4 * len(HASH_COLLIDING)


def prog_P1():
    """Every statement template with default holes in every context."""
    for t in T:
        for k in KNAMES:
            yield {"k": "src", "s": "P1", "src": in_context(k, render(t)), "mode": "exec", "opt": 0}


def n_prog_P1():
    return len(T) * len(K)


# ---------------------------------------------------------------- eval/single programs
def prog_eval():
    for e in exprs_depth(2):
        yield {"k": "src", "s": "Pe", "src": e.replace("\n", " "), "mode": "eval", "opt": 0}


def n_prog_eval():
    return n_exprs_depth(2)


def prog_single():
    ex = exprs_depth(1)
    for t in T:
        xs = ex if has_E(t) else [None]
        for e in xs:
            yield {
                "k": "src",
                "s": "Ps",
                "src": in_context("module", render(t, e or "a")),
                "mode": "single",
                "opt": 0,
            }


def n_prog_single():
    ne = n_exprs_depth(1)
    return sum((ne if has_E(t) else 1) for t in T)


# --------------------------------------------------------------------------- S-FEAT
def _src_names(n):
    return "\n".join("n%d" % i for i in range(n)) + "\n"


def _src_consts(n):
    return "\n".join("x = %d" % (1000 + i) for i in range(n)) + "\n"


def _src_locals(n):
    return "def f():\n" + "".join("    l%d = 1\n" % i for i in range(n)) + "    return l%d\n" % (n - 1)


def _src_cells(n):
    # n cell variables each captured by the inner function
    return (
        "def f():\n"
        + "".join("    c%d = 1\n" % i for i in range(n))
        + "    def g():\n        return ("
        + ", ".join("c%d" % i for i in range(n))
        + ")\n    return g\n"
    )


def _src_attr_names(n):
    return "def f(o):\n" + "".join("    o.a%d\n" % i for i in range(n)) + "\n"


def _src_call(n):
    return "f(" + ", ".join("a" for _ in range(n)) + ")\n"


def _src_tuple(n):
    return "v = [" + ", ".join("a" for _ in range(n)) + "]\n"


def _src_kwcall(n):
    return "f(" + ", ".join("k%d=a" % i for i in range(n)) + ")\n"


def _src_jump(kind, k):
    body = "    x = -x\n" * k
    if kind == "if":
        return "if a:\n" + body + "else:\n    y = 1\n"
    if kind == "ifdef":
        return "def f(x, a):\n" + "".join("    " + l + "\n" for l in ("if a:\n" + body + "else:\n    y = 1").split("\n")) + "    return x\n"
    if kind == "while":
        return "while a:\n" + body + "    if b: break\n"
    if kind == "for":
        return "for x in a:\n" + body + "else:\n    y = 1\n"
    if kind == "try":
        return "try:\n" + body + "except E:\n    y = 1\nfinally:\n    z = 1\n"
    if kind == "with":
        return "with a as x:\n" + body + "y = 1\n"
    if kind == "back":
        # backwards absolute jumps whose targets sit behind a long prefix
        return "x = a\n" * k + "while a:\n    x = -x\n    if b: continue\n    y = 1\n"
    if kind == "or":
        # 3.7-3.9 peephole shape leaving a redundant EXTENDED_ARG
        return "x = x or " + "-x" * k + "\n"
    raise KeyError(kind)


def _src_lnotab_inside(n):
    # 3.8/3.9: folded default tuples with index > 255 in a multi-line def leave an
    # lnotab entry inside an EXTENDED_ARG-prefixed instruction
    return "".join("x%d = %d\n" % (i, 1000 + i) for i in range(n)) + "def f(a=(1, 2),\n      b=(3, 4)):\n    pass\n"


def _src_nop_ext(n):
    """3.10 keeps a NOP (with the operand of the LOAD_CONST it replaced) for a constant
    condition that is alone on its line: with more than 255 constants before it, that
    NOP carries an EXTENDED_ARG prefix."""
    return "".join("x%d = %d\n" % (i, 1000 + i) for i in range(n)) + "if (2\n        and 3):\n    y = 1\nwhile (5\n       ):\n    break\n"


def _src_dispatch(n):
    """A function with n conditional returns: more than n jump targets in one code object."""
    return "def f(a):\n" + "".join("    if a == %d: return %d\n" % (i, i % 7) for i in range(n)) + "    return -1\n"


def _src_unref_tail(nm):
    """n names used, then m names that occur only in unreachable code after `return`
    (unreferenced trailing table entries; n*10+m is encoded in one parameter)."""
    n, m = nm // 10, nm % 10
    return (
        "def f():\n"
        + "".join("    g%d\n" % i for i in range(n))
        + "    return 1\n"
        + "".join("    h%d\n" % i for i in range(m))
    )


FEAT = {
    "lnotab_inside": _src_lnotab_inside,
    "unref_tail": _src_unref_tail,
    "dispatch": _src_dispatch,
    "nop_ext": _src_nop_ext,
    "names": _src_names,
    "consts": _src_consts,
    "locals": _src_locals,
    "cells": _src_cells,
    "attrs": _src_attr_names,
    "call": _src_call,
    "list": _src_tuple,
    "kwcall": _src_kwcall,
}

JUMP_KINDS = ["if", "ifdef", "while", "for", "try", "with", "back", "or"]


def feat_cases(tier):
    ns = [255, 256, 257]
    for n in (40, 300, 600):
        yield {"k": "feat", "s": "F", "fam": "dispatch", "n": n, "mode": "exec", "opt": 0}
    for fam in sorted(FEAT):
        if fam in ("unref_tail", "dispatch"):
            continue
        for n in ns:
            if fam in ("call", "list", "kwcall") and n > 255 and fam != "list":
                # CALL_FUNCTION with >255 args compiles to another shape; keep it (it
                # is a valid program) -- no filtering, compile decides
                pass
            yield {"k": "feat", "s": "F", "fam": fam, "n": n, "mode": "exec", "opt": 0}
    for nm in (62, 63, 72, 73, 82, 83, 142, 152, 153, 162, 163):
        yield {"k": "feat", "s": "F", "fam": "unref_tail", "n": nm, "mode": "exec", "opt": 0}
    big = [65535, 65536, 65537] if tier == "thorough" else [65537]
    for fam in ("names", "consts"):
        for n in big:
            yield {"k": "feat", "s": "F", "fam": fam, "n": n, "mode": "exec", "opt": 0}
    if tier == "thorough":
        for fam in ("locals", "attrs", "list"):
            for n in big:
                yield {"k": "feat", "s": "F", "fam": fam, "n": n, "mode": "exec", "opt": 0}
    # jump widths: bodies of K 4-byte statements, K around each boundary
    ks = sorted(set([1, 2, 3] + list(range(20, 24)) + list(range(28, 36)) + list(range(40, 46)) + list(range(60, 68)) + list(range(124, 132))))
    if tier == "thorough":
        ks = sorted(set(ks + list(range(1, 140)) + list(range(5440, 5480, 1)) + list(range(8180, 8200)) + list(range(10900, 10930)) + list(range(16370, 16390))))
    for kind in JUMP_KINDS:
        for k in ks:
            yield {"k": "jump", "s": "J", "kind": kind, "n": k, "mode": "exec", "opt": 0}
    # jump operands of three code units (two EXTENDED_ARG prefixes): 6 bytes / 3
    # instructions per statement, so >65535 bytes before 3.10 and >65535 instructions
    # from 3.10
    for kind in ("if", "back"):
        for k in (11000, 22000):
            yield {"k": "jump", "s": "J", "kind": kind, "n": k, "mode": "exec", "opt": 0}


def n_feat_cases(tier):
    return sum(1 for _ in feat_cases(tier))


# --------------------------------------------------------------------- repo regression corpus
REPO = os.environ.get("VERIF_REPO", "/repo")


def repo_corpus_cases():
    """Sources of upstream's own examples: code_data/_test.py EXAMPLES (parsed with
    ast so importing pytest/hypothesis is not needed) and _test_minimized/*.py."""
    import ast

    out = []
    p = os.path.join(REPO, "code_data", "_test.py")
    try:
        tree = ast.parse(open(p).read())
        for node in ast.walk(tree):
            if isinstance(node, ast.Call) and getattr(node.func, "attr", "") == "param" and node.args:
                a = node.args[0]
                try:
                    v = ast.literal_eval(a)
                except Exception:
                    continue
                if isinstance(v, str):
                    out.append(v)
    except (IOError, OSError, SyntaxError):
        pass
    d = os.path.join(REPO, "code_data", "_test_minimized")
    if os.path.isdir(d):
        for fn in sorted(os.listdir(d)):
            if fn.endswith(".py"):
                out.append(("file", os.path.join(d, fn)))
    for x in out:
        if isinstance(x, tuple):
            yield {"k": "file", "s": "R", "path": "repo:" + os.path.relpath(x[1], REPO), "mode": "exec", "opt": 0}
        else:
            yield {"k": "src", "s": "R", "src": x, "mode": "exec", "opt": 0}


# -------------------------------------------------------------------------- S-CORPUS
def stdlib_files():
    import sysconfig

    root = sysconfig.get_paths()["stdlib"]
    out = []
    for dp, dns, fns in os.walk(root):
        dns[:] = sorted(d for d in dns if d not in ("site-packages", "__pycache__"))
        for fn in sorted(fns):
            if fn.endswith(".py"):
                out.append(os.path.join(dp, fn))
    return out


def corpus_cases():
    for p in stdlib_files():
        yield {"k": "file", "s": "C", "path": p, "mode": "exec", "opt": 0}


# ------------------------------------------------------------------- S-LINE as source text
LINE_D = [0, 1, 2, 126, 127, 128, 129, 253, 254, 255, 256, 381]
BYTE_B = [2, 4, 252, 254, 256, 258, 508, 510, 512, 514, 764, 1020]


def _chain(nbytes):
    """An expression statement of approximately nbytes of bytecode: x = -...-x."""
    # LOAD_NAME x (2) + k*UNARY_NEGATIVE (2 each) + STORE_NAME (2)
    k = max(0, (nbytes - 4) // 2)
    return "x = " + "-" * k + "x"


def line_text_cases(tier):
    """Statements separated by blank lines (forward deltas), calls split across lines
    (backward deltas), unary chains (byte deltas)."""
    ds = LINE_D if tier == "thorough" else [0, 1, 127, 128, 129, 254, 255, 256]
    bs = BYTE_B if tier == "thorough" else [2, 4, 254, 256, 258, 510, 512]
    for b1 in bs:
        for d1 in ds:
            for b2 in bs:
                for d2 in ds:
                    src = _chain(b1) + "\n" * max(d1, 0) + (";" if d1 == 0 else "") + _chain(b2) + "\n" * max(d2, 0) + (";" if d2 == 0 else "") + "y = 1\n"
                    yield {"k": "src", "s": "Lf", "src": src, "mode": "exec", "opt": 0}
    # backward: f(<d blank lines> x) -> +d then -d between consecutive instructions
    for d1 in ds:
        for d2 in ds:
            for b in bs[:4]:
                src = (
                    "v = f(" + "\n" * d1 + "a," + "\n" * d2 + _chain(b)[4:] + ")\n" + "w = 1\n"
                )
                yield {"k": "src", "s": "Lb", "src": src, "mode": "exec", "opt": 0}


def line_text_def_cases(tier):
    """The same line shapes inside a function body: the function code objects of
    different cases are equal under code.__eq__ (which ignores the line table) but
    carry different line tables."""
    for c in line_text_cases(tier):
        if c["s"] != "Lf":
            continue
        body = "".join("    " + l + "\n" if l.strip() else "\n" for l in c["src"].split("\n")[:-1])
        yield {"k": "src", "s": "Ld", "src": "def f(x):\n" + body + "    return x\n", "mode": "exec", "opt": 0}


def n_line_text_def_cases(tier):
    ds = len(LINE_D) if tier == "thorough" else 8
    bs = len(BYTE_B) if tier == "thorough" else 7
    return bs * ds * bs * ds


DEAD_K = [1, 2, 126, 127, 128, 129, 253, 254, 255, 256]


def _dead_sources(k, m):
    """Unreachable statements after `return` spanning k / m lines: before 3.10 the
    peephole optimizer removes their bytecode after the line table was assembled,
    which leaves several zero-width entries at one offset (forward and backward)."""
    nl = "\n"
    yield "def f():" + nl + "    return 1" + nl + "    x = g(" + nl * (k + 1) + "      a)" + nl + "    y = 2" + nl
    yield "def f():" + nl + "    return 1" + nl * (k + 1) + "    x = g(" + nl * (m + 1) + "      a)" + nl
    yield "def f():" + nl + "    return 1" + nl * (k + 1) + "    x = 2" + nl + "    y = g(" + nl * m + "      a)" + nl + "    z = 3" + nl
    yield "def f(a):" + nl + "    if a:" + nl + "        return g(" + nl * k + "            a)" + nl + "        x = [1," + nl * m + "             2]" + nl + "    return 0" + nl * (k + 1) + "    y = 3" + nl


def line_dead_cases(tier):
    for k in DEAD_K:
        for m in DEAD_K:
            for src in _dead_sources(k, m):
                yield {"k": "src", "s": "Lx", "src": src, "mode": "exec", "opt": 0}


def n_line_dead_cases(tier):
    return len(DEAD_K) ** 2 * 4


def n_line_text_cases(tier):
    ds = len(LINE_D) if tier == "thorough" else 8
    bs = len(BYTE_B) if tier == "thorough" else 7
    return bs * ds * bs * ds + ds * ds * 4


# ------------------------------------------------------------------------- build_code
def case_source(case):
    k = case["k"]
    if k == "src":
        return case["src"], "<verif>"
    if k == "file":
        path = case["path"]
        if path.startswith("repo:"):
            path = os.path.join(REPO, path[5:])
        with open(path, "rb") as f:
            return f.read(), path
    if k == "feat":
        return FEAT[case["fam"]](case["n"]), "<verif>"
    if k == "jump":
        return _src_jump(case["kind"], case["n"]), "<verif>"
    raise KeyError(k)


def build_code(case):
    src, fn = case_source(case)
    c = compile(src, fn, case.get("mode", "exec"), dont_inherit=True, optimize=case.get("opt", 0))
    if case.get("patch_noarg"):
        c = _patch_noarg(c, case["patch_noarg"])
    return c


def _patch_noarg(c, value):
    """The same code with the (ignored) operand byte of every argument-less instruction
    set to `value`, recursively: a legal code object CPython executes identically."""
    import dis
    import types

    b = bytearray(c.co_code)
    for i in range(0, len(b), 2):
        if b[i] < dis.HAVE_ARGUMENT:
            b[i + 1] = value
    consts = tuple(_patch_noarg(k, value) if isinstance(k, types.CodeType) else k for k in c.co_consts)
    if hasattr(c, "replace"):
        return c.replace(co_code=bytes(b), co_consts=consts)
    return types.CodeType(
        c.co_argcount, c.co_kwonlyargcount, c.co_nlocals, c.co_stacksize, c.co_flags, bytes(b), consts, c.co_names,
        c.co_varnames, c.co_filename, c.co_name, c.co_firstlineno, c.co_lnotab, c.co_freevars, c.co_cellvars,
    )
