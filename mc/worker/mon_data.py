# C03: encoding any well-formed CodeData yields code that says what the data says.
# Python 3.7 compatible.
from __future__ import print_function

import dataclasses
import dis
import itertools
import sys

import consts
import ref
import spaces
from core import PY, PYS, HorizonHit, Monitor, exc_summary, horizon
from strict import LINE_ATTR, code_key, digest64, short, skey, walk_codes

from code_data import (
    Args,
    Cellvar,
    CodeData,
    Constant,
    Freevar,
    Function,
    Instruction,
    Jump,
    Name,
    NoArg,
    Varname,
)

H = 60.0  # per-call horizon (seconds): generous, it only turns non-termination into an observation
H_BIG = 900.0
LINETABLE = PY >= (3, 10)
# operands of jumps count bytes before 3.10 and code units from 3.10
U1 = 256 if LINETABLE else 128  # instructions after which a jump operand needs 2 units
U2 = 65536 if LINETABLE else 32768


def flat(d):
    return [i for b in d.blocks for i in b]


def block_starts(d):
    s, n = [], 0
    for b in d.blocks:
        s.append(n)
        n += len(b)
    return s


def mk(blocks, **kw):
    base = dict(filename="<verif>", first_line_number=1, name="<module>", stacksize=2)
    base.update(kw)
    return CodeData(blocks=tuple(tuple(b) for b in blocks), **base)


def I(name, arg=None, line=1):
    if arg is None:
        return Instruction(name, line_number=line)
    return Instruction(name, arg, line_number=line)


RET = [I("LOAD_CONST", Constant(None)), I("RETURN_VALUE")]


# ----------------------------------------------------------------------- the oracle
def expected_stream(x):
    starts = block_starts(x)
    out = []
    for i in flat(x):
        a = i.arg
        if type(a) is Jump:
            item = ("jrel" if a.relative else "jabs", starts[a.target])
        elif type(a) is Name:
            item = ("name", a.name)
        elif type(a) is Varname:
            item = ("local", a.varname)
        elif type(a) is Cellvar:
            item = ("cell", a.cellvar)
        elif type(a) is Freevar:
            item = ("free", a.freevar)
        elif type(a) is Constant:
            if isinstance(a.constant, CodeData):
                item = ("const-code", a.constant)
            else:
                item = ("const", skey(a.constant, True))
        elif type(a) is NoArg:
            item = ("none", None)
        else:
            item = ("raw", a)
        out.append((i.name, item, i.line_number))
    return out


def expected_params(args):
    out = []
    for n in args.positional_only:
        out.append((n, "POSITIONAL_ONLY"))
    for n in args.positional_or_keyword:
        out.append((n, "POSITIONAL_OR_KEYWORD"))
    if args.var_positional is not None:
        out.append((args.var_positional, "VAR_POSITIONAL"))
    for n in args.keyword_only:
        out.append((n, "KEYWORD_ONLY"))
    if args.var_keyword is not None:
        out.append((args.var_keyword, "VAR_KEYWORD"))
    return out


def says_what_data_says(x, c, path=""):
    """None if CPython reads code object c as exactly what CodeData x describes, else
    (kind, explanation)."""
    try:
        raw = ref.raw_instructions(c.co_code)
    except ref.HarnessError as e:
        return ("bytecode-malformed", path + str(e))
    try:
        sym = ref.resolve(c, raw, nan_ident=True)
    except IndexError:
        # find the offender
        for first, n, op, arg in raw:
            for tbl, ops in ((c.co_consts, ref.HASCONST), (c.co_names, ref.HASNAME), (c.co_varnames, ref.HASLOCAL)):
                if op in ops and not (0 <= arg < len(tbl)):
                    return ("operand-outside-table", "%s%s at offset %d has operand %d but its table has %d entries" % (path, dis.opname[op], first, arg, len(tbl)))
            if op in ref.HASFREE and not (0 <= arg < len(c.co_cellvars) + len(c.co_freevars)):
                return ("operand-outside-table", "%s%s at offset %d has operand %d but there are %d cell+free variables" % (path, dis.opname[op], first, arg, len(c.co_cellvars) + len(c.co_freevars)))
        return ("operand-outside-table", path + "an operand indexes outside its table")
    exp = expected_stream(x)
    if len(exp) != len(sym):
        return ("instruction-count", "%sdata has %d instructions, CPython reads %d" % (path, len(exp), len(sym)))
    for idx, ((name, item, line), (gname, gkind, gval), (first, n, op, arg)) in enumerate(zip(exp, sym, raw)):
        if name != gname:
            return ("opname", "%sinstruction %d: data says %s, CPython reads %s" % (path, idx, name, gname))
        kind, val = item
        if kind in ("jabs", "jrel"):
            if gkind != kind:
                return ("jump-kind", "%sinstruction %d %s: data says %s, opcode is %s" % (path, idx, name, kind, gkind))
            if gval != val:
                return ("jump-target", "%sinstruction %d %s (operand %d, %d units): lands on instruction %r, the target block begins at instruction %d" % (path, idx, name, arg, n, gval, val))
        elif kind == "const-code":
            k = c.co_consts[arg] if op in ref.HASCONST and 0 <= arg < len(c.co_consts) else None
            if type(k) is not type(c):
                return ("operand:const", "%sinstruction %d %s: data gives a code constant, CPython loads %s" % (path, idx, name, short(k)))
            r = says_what_data_says(val, k, path + "const[%d]." % arg)
            if r:
                return r
        elif kind == "none":
            if gkind != "none":
                return ("operand-kind", "%sinstruction %d %s: data gives no operand but the opcode takes one" % (path, idx, name))
        else:
            if gkind != kind or gval != val:
                return (
                    "operand:" + kind,
                    "%sinstruction %d %s: data says %s %s, CPython resolves operand %d to %s %s" % (path, idx, name, kind, short(val, 80), arg, gkind, short(gval, 80)),
                )
        got_line = ref.addr2line(c, first)
        if not LINETABLE and line is None:
            pass  # unrepresentable on lnotab; to_code is expected to refuse
        if got_line != line:
            return ("line", "%sinstruction %d %s: data says line %r, CPython reads %r" % (path, idx, name, line, got_line))
    # header
    for attr, want in (("co_filename", x.filename), ("co_name", x.name), ("co_firstlineno", x.first_line_number), ("co_stacksize", x.stacksize), ("co_freevars", tuple(x.freevars))):
        if getattr(c, attr) != want:
            return ("header:" + attr, "%s%s is %r, data says %r" % (path, attr, getattr(c, attr), want))
    fl = c.co_flags
    if bool(fl & ref.CO_NESTED) != bool(x._nested):
        return ("flags:NESTED", path + "CO_NESTED does not match _nested")
    import __future__ as F

    if bool(fl & F.annotations.compiler_flag) != bool(x.future_annotations):
        return ("flags:annotations", path + "annotations flag does not match future_annotations")
    if bool(fl & ref.CO_NOFREE) != (not c.co_freevars and not c.co_cellvars):
        return ("flags:NOFREE", path + "CO_NOFREE inconsistent with cell/free variables")
    if isinstance(x.type, Function):
        if fl & 0x3 != 0x3:
            return ("flags:function", path + "function data encoded without OPTIMIZED|NEWLOCALS")
        want = expected_params(x.type.args)
        if ref.sig_from_header(c) != want:
            return ("signature", "%ssignature is %r, data says %r" % (path, ref.sig_from_header(c), want))
        try:
            got_b, fn = ref.sig_from_inspect(c)
        except Exception as e:
            return ("signature", "%sinspect.signature fails on the result: %r" % (path, e))
        if got_b != want:
            return ("signature", "%sinspect reports %r, data says %r" % (path, got_b, want))
        if fn.__doc__ != x.type.docstring:
            return ("docstring", "%s__doc__ is %r, data says %r" % (path, fn.__doc__, x.type.docstring))
        if ref.function_kind(fn) != x.type.type:
            return ("function-kind", "%sinspect classifies %r, data says %r" % (path, ref.function_kind(fn), x.type.type))
    else:
        if fl & 0x3 or c.co_argcount or c.co_kwonlyargcount or getattr(c, "co_posonlyargcount", 0) or fl & (ref.CO_VARARGS | ref.CO_VARKEYWORDS | 0x2A0):
            return ("flags:nonfunction", "%snon-function data encoded with function flags/args (flags 0x%x)" % (path, fl))
    if c.co_nlocals != len(c.co_varnames):
        return ("header:co_nlocals", path + "co_nlocals != len(co_varnames)")
    return None


def stream_with_targets(d):
    """Flattened normalized instruction keys with jump targets as instruction indices."""
    starts = block_starts(d)
    out = []
    for i in flat(d):
        a = i.arg
        if type(a) is Jump:
            out.append((i.name, ("J", a.relative, starts[a.target]), i.line_number))
        else:
            out.append((i.name, skey(a, True), i.line_number))
    return out


def redecode_equal(x, c):
    """Decoding the result again gives data equal to the input up to normalization
    (compared on the flattened stream: block splits no jump targets need not survive)."""
    d2 = CodeData.from_code(c).normalize()
    xn = x.normalize()
    if stream_with_targets(d2) != stream_with_targets(xn):
        a, b = stream_with_targets(xn), stream_with_targets(d2)
        for i, (p, q) in enumerate(zip(a, b)):
            if p != q:
                return "instruction %d: input %s, decoded again %s" % (i, short(p, 100), short(q, 100))
        return "instruction count %d vs %d" % (len(a), len(b))
    for f in dataclasses.fields(xn):
        if f.name == "blocks":
            continue
        if skey(getattr(xn, f.name), True) != skey(getattr(d2, f.name), True):
            return "field %s: input %s, decoded again %s" % (f.name, short(getattr(xn, f.name), 100), short(getattr(d2, f.name), 100))
    return None


# ------------------------------------------------------------------------- the spaces
ABS = ["JUMP_ABSOLUTE", "POP_JUMP_IF_FALSE"]
REL = ["JUMP_FORWARD", "FOR_ITER"]


def pads(tier, n=3):
    if tier == "thorough":
        return [0, 1, U1 - 2, U1 - 1, U1, U1 + 1]
    if n >= 4:
        return [0, U1 - 1, U1]
    return [0, 1, U1 - 1, U1]


def graph_cases(tier):
    # one jump, up to 4 blocks
    for n in (2, 3, 4):
        jumps = jump_menu(n)
        for ps in itertools.product(pads(tier, n), repeat=n):
            for j in jumps:
                yield {"k": "graph", "s": "G1", "pads": list(ps), "jumps": [j]}
    # two jumps, 3 blocks (cascades: growing one jump pushes the other across a boundary)
    jumps = jump_menu(3)
    for ps in itertools.product(pads(tier, 3), repeat=3):
        for a in range(len(jumps)):
            for b in range(a + 1, len(jumps)):
                if jumps[a][0] == jumps[b][0]:
                    continue  # one jump per block end
                yield {"k": "graph", "s": "G2", "pads": list(ps), "jumps": [jumps[a], jumps[b]]}
    # chains: K absolute forward jumps whose targets sit 1, 2, 3, ... instructions below
    # the boundary, so that every layout pass grows exactly one more jump
    for K in (3, 12, 20, 40):
        for op in ABS:
            yield {"k": "chain", "s": "GC", "K": K, "op": op}
    if tier == "thorough":
        big = [U2 - 2, U2 - 1, U2, U2 + 1]
        for p0 in big:
            for p1 in (0, U1 - 1):
                for j in jump_menu(3):
                    yield {"k": "graph", "s": "G3", "pads": [1, p0, p1], "jumps": [j]}


def jump_menu(n):
    """(source block, opname, target block): absolute jumps to any block, relative jumps
    to a later block."""
    out = []
    for src in range(n):
        for op in ABS:
            for t in range(n):
                out.append([src, op, t])
        for op in REL:
            for t in range(src + 1, n):
                out.append([src, op, t])
    return out


def n_graph_cases(tier):
    tot = 0
    for n in (2, 3, 4):
        tot += len(pads(tier, n)) ** n * len(jump_menu(n))
    jm = jump_menu(3)
    pairs = sum(1 for a in range(len(jm)) for b in range(a + 1, len(jm)) if jm[a][0] != jm[b][0])
    tot += len(pads(tier, 3)) ** 3 * pairs
    tot += 4 * len(ABS)
    if tier == "thorough":
        tot += 4 * 2 * len(jump_menu(3))
    return tot


def build_chain(case):
    K, op = case["K"], case["op"]
    P = U1 + 1 - 2 * K
    blocks = [[I(op, Jump(j), 5) for j in range(1, K + 1)] + [I("NOP", None, 6)] * P]
    # block j (j = K .. 1 in layout order) is one instruction; Jump(j) designates the
    # block with index j, so lay them out as K, K-1, ..., 1
    order = list(range(K, 0, -1))
    index_of = {}
    for pos, j in enumerate(order):
        index_of[j] = pos + 1
    blocks[0] = [I(op, Jump(index_of[j]), 5) for j in range(1, K + 1)] + [I("NOP", None, 6)] * P
    for j in order:
        blocks.append([I("NOP", None, 7)])
    blocks[-1] = blocks[-1] + [I("LOAD_CONST", Constant(None), 8), I("RETURN_VALUE", None, 8)]
    return mk(blocks)


def build_graph(case):
    n = len(case["pads"])
    blocks = []
    for bi in range(n):
        b = [I("NOP", None, 10 + bi)] * case["pads"][bi]
        b = list(b)
        for src, op, t in case["jumps"]:
            if src == bi:
                b.append(I(op, Jump(t, op in REL), 10 + bi))
        if bi == n - 1:
            b += [I("LOAD_CONST", Constant(None), 20), I("RETURN_VALUE", None, 20)]
        if not b:
            b = [I("NOP", None, 10 + bi)]
        blocks.append(b)
    return mk(blocks)


TABLE_KINDS = ["name", "const", "local", "cell", "freeafter", "freeadditional"]


def table_cases(tier):
    ns = [0, 1, 2, 255, 256, 257]
    if tier == "thorough":
        ns += [65535, 65536, 65537]
    else:
        ns += [65537]
    for kind in TABLE_KINDS:
        for n in ns:
            if kind in ("freeafter", "freeadditional") and n > 300:
                continue
            for dup in (0, 1):
                yield {"k": "table", "s": "T", "kind": kind, "n": n, "dup": dup}


def n_table_cases(tier):
    return sum(1 for _ in table_cases(tier))


def build_table(case):
    kind, n, dup = case["kind"], case["n"], case["dup"]
    ins = []
    kw = {}
    if kind == "name":
        ins = [I("LOAD_NAME", Name("n%d" % i), 1 + i % 3) for i in range(n)]
        if dup and n:
            ins += [I("STORE_NAME", Name("n0"), 5), I("LOAD_NAME", Name("n%d" % (n - 1)), 5)]
    elif kind == "const":
        ins = [I("LOAD_CONST", Constant(1000 + i), 1 + i % 3) for i in range(n)]
        if dup and n:
            ins += [I("LOAD_CONST", Constant(1000), 5), I("LOAD_CONST", Constant(1000 + n - 1), 5), I("LOAD_CONST", Constant(1000.0), 5), I("LOAD_CONST", Constant(True), 5), I("LOAD_CONST", Constant(1), 5)]
    elif kind == "local":
        kw["type"] = Function(Args(positional_or_keyword=("p0",)))
        kw["name"] = "f"
        ins = [I("LOAD_FAST", Varname("l%d" % i), 1 + i % 3) for i in range(n)]
        if dup and n:
            ins += [I("LOAD_FAST", Varname("p0"), 5), I("STORE_FAST", Varname("l%d" % (n - 1)), 5)]
    elif kind == "cell":
        kw["type"] = Function(Args())
        kw["name"] = "f"
        ins = [I("LOAD_CLOSURE", Cellvar("c%d" % i), 1 + i % 3) for i in range(n)]
        if dup and n:
            ins += [I("LOAD_DEREF", Cellvar("c0"), 5)]
    elif kind == "freeafter":
        # free-variable operands are offset by the number of cell variables, which is
        # known only after all instructions were seen; a jump after them must still land
        kw["type"] = Function(Args())
        kw["name"] = "f"
        kw["freevars"] = ("fa", "fb")
        b0 = [I("LOAD_DEREF", Freevar("fb"), 1), I("JUMP_FORWARD", Jump(1, True), 1)] if dup else [I("LOAD_DEREF", Freevar("fb"), 1), I("POP_JUMP_IF_FALSE", Jump(1, False), 1)]
        b1 = [I("LOAD_CLOSURE", Cellvar("c%d" % i), 2) for i in range(n)] + [I("LOAD_DEREF", Freevar("fa"), 3)]
        return mk([b0, b1 + list(RET)], **kw)
    elif kind == "freeadditional":
        # the cell variables are table entries no instruction references (as decoding
        # leaves them when a closure over them was optimized away)
        kw["type"] = Function(Args())
        kw["name"] = "f"
        kw["freevars"] = ("fa", "fb")
        kw["_additional_args"] = tuple(Cellvar("c%d" % i) for i in range(n))
        b0 = [I("LOAD_DEREF", Freevar("fb"), 1), I("JUMP_FORWARD", Jump(1, True), 1)] if dup else [I("LOAD_DEREF", Freevar("fb"), 1), I("POP_JUMP_IF_FALSE", Jump(1, False), 1)]
        b1 = [I("LOAD_DEREF", Freevar("fa"), 3), I("STORE_DEREF", Freevar("fb"), 3)]
        return mk([b0, b1 + list(RET)], **kw)
    return mk([ins + list(RET)], **kw)


LINES = [1, 2, 5, 130, 131, 260, 400, 1000] + ([None] if LINETABLE else [])
FIRSTS = [1, 3, 200]


def line_cases(tier):
    for a in LINES:
        for b in LINES:
            for c in LINES:
                for f in FIRSTS:
                    for long in (0, 1):
                        yield {"k": "lines", "s": "LN", "l": [a, b, c], "first": f, "long": long}


def n_line_cases(tier):
    return len(LINES) ** 3 * len(FIRSTS) * 2


def build_lines(case):
    a, b, c = case["l"]
    mid = 130 if case["long"] else 1
    ins = [I("NOP", None, a)] + [I("NOP", None, b)] * mid + [I("LOAD_CONST", Constant(None), c), I("RETURN_VALUE", None, c)]
    return mk([ins], first_line_number=case["first"])


def constpair_cases(tier):
    n = consts.size("quick")
    for i in range(n):
        yield {"k": "constrow", "s": "CP", "i": i}


NESTED_VALUES = [-1, -2, 0, 2 ** 61 - 1, "a", b"a", 1, True, 1.0, 0.0, -0.0]


def nested_fn(v):
    """Hand-built CodeData of `lambda: v`."""
    return mk([[I("LOAD_CONST", Constant(v)), I("RETURN_VALUE")]], type=Function(Args()), name="<lambda>")


def nestedpair_cases(tier):
    for i in range(len(NESTED_VALUES)):
        for j in range(len(NESTED_VALUES)):
            yield {"k": "nestedpair", "s": "NP", "i": i, "j": j}


def sig_cases(tier):
    pos = (0, 1, 2) if PY >= (3, 8) else (0,)
    for po in pos:
        for pk in (0, 1, 2):
            for ko in (0, 1, 2):
                for star in (0, 1):
                    for dstar in (0, 1):
                        for ft in (None, "GENERATOR", "COROUTINE", "ASYNC_GENERATOR"):
                            for doc in (None, "doc", "\udc80d"):
                                for body in ("none", "str", "params"):
                                    for free in (0, 1):
                                        yield {"k": "sig", "s": "SG", "shape": [po, pk, ko, star, dstar], "ft": ft, "doc": doc, "body": body, "free": free}


def n_sig_cases(tier):
    return (3 if PY >= (3, 8) else 1) * 3 * 3 * 2 * 2 * 4 * 3 * 3 * 2


def build_sig(case):
    po, pk, ko, star, dstar = case["shape"]
    args = Args(
        positional_only=tuple("p%d" % i for i in range(po)),
        positional_or_keyword=tuple("a%d" % i for i in range(pk)),
        var_positional="va" if star else None,
        keyword_only=tuple("k%d" % i for i in range(ko)),
        var_keyword="kw" if dstar else None,
    )
    body = []
    if case["body"] == "str":
        body = [I("LOAD_CONST", Constant("s")), I("POP_TOP")]
    elif case["body"] == "params":
        names = list(args.positional_only + args.positional_or_keyword + args.keyword_only)
        if args.var_keyword:
            names.append(args.var_keyword)
        if args.var_positional:
            names.append(args.var_positional)
        # use them in reverse signature order, plus a plain local
        body = [I("LOAD_FAST", Varname(n)) for n in reversed(names)] + [I("LOAD_FAST", Varname("loc"))]
    kw = {}
    if case["free"]:
        kw["freevars"] = ("fv",)
        body = [I("LOAD_DEREF", Freevar("fv"))] + body
        kw["_nested"] = True
    return mk([body + list(RET)], type=Function(args, case["doc"], case["ft"]), name="f", future_annotations=bool(case["free"]), **kw)


OVR = [None, 0, 1, 2, 5]
OV_KINDS = ["name", "const", "local", "cell", "consteq-zero", "consteq-one"]
CONSTEQ = {"consteq-zero": [0.0, -0.0], "consteq-one": [1, True]}


def override_cases(tier):
    for kind in OV_KINDS:
        for vals in itertools.product((0, 1), repeat=3):
            for ovs in itertools.product(OVR, repeat=3):
                yield {"k": "override", "s": "OV", "kind": kind, "vals": list(vals), "ovs": list(ovs)}


def n_override_cases(tier):
    return len(OV_KINDS) * 8 * 125


def build_override(case):
    kind = case["kind"]
    ins = []
    kw = {}
    for v, o in zip(case["vals"], case["ovs"]):
        if kind == "name":
            ins.append(I("LOAD_NAME", Name("nm%d" % v, o)))
        elif kind == "const":
            ins.append(I("LOAD_CONST", Constant(v + 40, o)))
        elif kind in CONSTEQ:
            # two constants that are == but not the same constant
            ins.append(I("LOAD_CONST", Constant(CONSTEQ[kind][v], o)))
        elif kind == "local":
            kw["type"] = Function(Args())
            ins.append(I("LOAD_FAST", Varname("lv%d" % v, o)))
        elif kind == "cell":
            kw["type"] = Function(Args())
            ins.append(I("LOAD_CLOSURE", Cellvar("cv%d" % v, o)))
    # no LOAD_CONST None epilogue for the constant table (it would occupy an index)
    ins.append(I("RETURN_VALUE"))
    return mk([ins], **kw)


def carries_overrides(x):
    if x._additional_args:
        return True
    for i in flat(x):
        if getattr(i.arg, "_index_override", None) is not None:
            return True
    return False


# --------------------------------------------------------------------------- monitor
class C03(Monitor):
    prop = "C03"

    def __init__(self, tier):
        Monitor.__init__(self, tier)
        self._rows = None
        self.seen = set()

    def strata(self):
        t = self.tier
        st = [
            ("G", lambda: graph_cases(t), n_graph_cases(t)),
            ("T", lambda: table_cases(t), n_table_cases(t)),
            ("LN", lambda: line_cases(t), n_line_cases(t)),
            ("CP", lambda: constpair_cases(t), consts.size("quick")),
            ("NP", lambda: nestedpair_cases(t), len(NESTED_VALUES) ** 2),
            ("SG", lambda: sig_cases(t), n_sig_cases(t)),
            ("OV", lambda: override_cases(t), n_override_cases(t)),
            ("ED", lambda: self.edit_cases(), self.n_edit_cases()),
        ]
        return st

    def edit_programs(self):
        out = list(spaces.with_modes(spaces.prog_Pa()))
        n = 1500 if self.tier == "quick" else 15000
        return spaces.spread(out, n)

    def edit_cases(self):
        for i, c in enumerate(self.edit_programs()):
            yield dict(c, k="edit", s="ED", base=c["k"])

    def n_edit_cases(self):
        return len(self.edit_programs())

    def cases(self):
        for name, gen, n in self.strata():
            for c in gen():
                yield c

    def predicted(self):
        return sum(n for name, gen, n in self.strata())

    def check(self, case, stats):
        k = case["k"]
        if k == "graph":
            x = build_graph(case)
            if len(flat(x)) < 700:
                stats.sample(case["s"], case, per=1)
            self.judge(case, x, stats)
        elif k == "chain":
            stats.sample("GC", case, per=2)
            self.judge(case, build_chain(case), stats)
        elif k == "table":
            stats.sample("T", case, per=2)
            self.judge(case, build_table(case), stats, big=case["n"] > 1000)
        elif k == "lines":
            stats.sample("LN", case, per=2)
            self.judge(case, build_lines(case), stats)
        elif k == "sig":
            stats.sample("SG", case, per=2)
            self.judge(case, build_sig(case), stats)
        elif k == "override":
            stats.sample("OV", case, per=2)
            self.judge_override(case, build_override(case), stats)
        elif k == "constrow":
            self.const_row(case, stats)
        elif k == "nestedpair":
            # two nested code constants that differ in one constant of their own
            # (values with colliding hashes, or == across types)
            u, v = NESTED_VALUES[case["i"]], NESTED_VALUES[case["j"]]
            x = mk([[I("LOAD_CONST", Constant(nested_fn(u))), I("LOAD_CONST", Constant(nested_fn(v))), I("BUILD_TUPLE", 2), I("RETURN_VALUE")]])
            stats.sample("NP", {"nested constants": [short(u), short(v)]}, per=1)
            self.judge(case, x, stats)
        elif k == "edit":
            self.edits(case, stats)

    replay = check

    def judge(self, case, x, stats, big=False, count=True, may_refuse=False):
        if count:
            stats.evaluations += 1
            stats.nontriv(("case", digest64(repr(sorted(case.items())))))
        try:
            with horizon(H_BIG if big else H):
                c = x.to_code()
        except HorizonHit:
            stats.horizon_hits += 1
            stats.violation(case, "to_code-no-termination", "to_code() did not return within the horizon")
            return False
        except Exception as e:
            if may_refuse:
                # the edit left private position overrides that no longer fit together
                stats.outcomes["edited-overrides-refused"] += 1
                return True
            stats.violation(case, "to_code-raises:" + type(e).__name__, "well-formed data refused: " + exc_summary(e))
            return False
        r = says_what_data_says(x, c)
        if r:
            stats.violation(case, "says:" + r[0], r[1])
            return False
        try:
            with horizon(H_BIG if big else H):
                r = redecode_equal(x, c)
        except HorizonHit:
            stats.violation(case, "redecode-no-termination", "")
            return False
        except Exception as e:
            stats.violation(case, "redecode-raises:" + type(e).__name__, exc_summary(e))
            return False
        if r:
            stats.violation(case, "redecode-differs", r)
            return False
        raw = ref.raw_instructions(c.co_code)
        for first, n, op, arg in raw:
            if op in ref.HASJABS or op in ref.HASJREL:
                stats.reach["jump-units:%d" % n] += 1
            elif n > 1:
                stats.reach["operand-units:%d" % n] += 1
        stats.outcomes["encodes-ok:" + case["s"]] += 1
        return True

    def judge_override(self, case, x, stats):
        stats.evaluations += 1
        stats.nontriv(("ov", case["kind"], tuple(case["vals"]), tuple(str(o) for o in case["ovs"])))
        try:
            with horizon(H):
                c = x.to_code()
        except HorizonHit:
            stats.violation(case, "to_code-no-termination", "")
            return
        except Exception:
            stats.outcomes["inconsistent-overrides-refused"] += 1
            return
        # accepted: then every operand must be in-table and resolve to the given value
        try:
            sym = ref.resolve(c, nan_ident=True)
        except IndexError:
            r = says_what_data_says(x, c)
            stats.violation(case, "override:" + (r[0] if r else "operand-outside-table"), r[1] if r else "operand outside table")
            return
        exp = expected_stream(x)
        for idx, ((name, item, line), (gname, gkind, gval)) in enumerate(zip(exp, sym)):
            if item[0] in ("name", "const", "local", "cell") and (gkind, gval) != item:
                stats.violation(case, "override:wrong-value", "instruction %d %s: data says %s, resolves to %s %s" % (idx, name, short(item), gkind, short(gval)))
                return
        stats.outcomes["overrides-accepted-consistent"] += 1

    def rows(self):
        if self._rows is None:
            self._rows = (consts.build("quick"), consts.build("quick"))
        return self._rows

    def const_row(self, case, stats):
        A, B = self.rows()
        i = case["i"]
        u = A[i][1]
        stats.sample("CP", {"first": A[i][0], "second": "every S-CONST value in turn"}, per=1)
        for j, (rec, v) in enumerate(B):
            if case.get("j") is not None and j != case["j"]:
                continue
            x = mk([[I("LOAD_CONST", Constant(u)), I("LOAD_CONST", Constant(v)), I("BUILD_TUPLE", 2), I("RETURN_VALUE")]])
            sub = dict(case, j=j)
            stats.evaluations += 1
            try:
                with horizon(H):
                    c = x.to_code()
            except HorizonHit:
                stats.violation(sub, "to_code-no-termination", "")
                return
            except Exception as e:
                stats.violation(sub, "to_code-raises:" + type(e).__name__, "constants %s, %s: %s" % (short(u, 40), short(v, 40), exc_summary(e)))
                return
            r = says_what_data_says(x, c)
            if r:
                stats.violation(sub, "constants:" + r[0], "constants %s, %s: %s" % (short(u, 40), short(v, 40), r[1]))
                return
            same = skey(u, True) == skey(v, True)
            raw = ref.raw_instructions(c.co_code)
            if not same and raw[0][3] == raw[1][3]:
                stats.violation(sub, "constants:merged", "distinct constants %s and %s share table entry %d" % (short(u, 40), short(v, 40), raw[0][3]))
                return
            if same:
                stats.nontriv(("same", i, j))
            stats.outcomes["const-pair-ok:" + ("same" if same else "distinct")] += 1

    def edits(self, case, stats):
        src = dict(case, k=case["base"])
        try:
            root = spaces.build_code(src)
        except SyntaxError:
            stats.skipped["not-compilable"] += 1
            return
        stats.sample("ED", {"program": case.get("src"), "edits": "delete each instruction in turn; clear _additional_args; clear each override"}, per=1)
        for path, code in walk_codes(root):
            key = digest64(code_key(code))
            if key in self.seen:
                continue
            self.seen.add(key)
            try:
                d = CodeData.from_code(code)
            except Exception:
                stats.skipped["from_code-raises"] += 1
                continue
            sub = dict(case, cpath=list(path))
            only = case.get("edit")
            for name, x in self.edit_variants(d):
                if only is not None and name != only:
                    continue
                self.judge(dict(sub, edit=name), x, stats, may_refuse=carries_overrides(x))

    def edit_variants(self, d):
        ins = flat(d)
        n = 0
        # delete one instruction (never the only one of a block: blocks stay non-empty)
        for bi, b in enumerate(d.blocks):
            for ii in range(len(b)):
                if len(b) == 1:
                    continue
                nb = b[:ii] + b[ii + 1 :]
                # keep <=3.9's private line bookkeeping consistent with the edit
                yield "del:%d:%d" % (bi, ii), dataclasses.replace(d, blocks=d.blocks[:bi] + (nb,) + d.blocks[bi + 1 :], _additional_line=None)
        yield "clear-additional", dataclasses.replace(d, _additional_args=())
        # clear the override of every use of one entry
        seen = set()
        for bi, b in enumerate(d.blocks):
            for ii, i in enumerate(b):
                a = i.arg
                if type(a) in (Name, Varname, Cellvar, Constant) and a._index_override is not None:
                    k = (type(a).__name__, a._index_override)
                    if k in seen:
                        continue
                    seen.add(k)
                    blocks = tuple(
                        tuple(
                            dataclasses.replace(j, arg=dataclasses.replace(j.arg, _index_override=None))
                            if type(j.arg) is type(a) and j.arg._index_override == a._index_override
                            else j
                            for j in bb
                        )
                        for bb in d.blocks
                    )
                    yield "clear-override:%s:%d" % k, dataclasses.replace(d, blocks=blocks)


MONITORS = {"C03": C03}
