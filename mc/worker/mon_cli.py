# C16: the command line prints what the API returns for the same program.
# Python 3.7 compatible.
from __future__ import print_function

import contextlib
import dis
import io
import itertools
import json
import os
import re
import shutil
import subprocess
import sys
import tempfile

import ref
from core import PY, PYS, HorizonHit, Monitor, exc_summary, horizon
from strict import digest64, short, skey

from code_data import CodeData

FLAGS = ["--dis", "--dis-after", "--source", "--no-normalize", "--json"]
SOURCES = ["file", "-c", "-e", "-m"]

PROGRAMS = [
    ("empty", ""),
    ("two-lines", "x = 1\ny = x + 1\n"),
    (
        "nested",
        'def outer(a, *b, c=1, **d):\n    "doc"\n    def inner():\n        return a\n    return inner\nclass K:\n    def m(self):\n        return super().m()\n',
    ),
    (
        "constants",
        "v = [1e999-1e999, 1e999, -0.0, b'by', '\\udc80', 2j, 1e999j, (1e999-1e999)+2j, (-1e999j, 0.0), 2**70, (1, (2.0, None)), ...]\nw = x in {1, 2}\n",
    ),
    ("many-constants", "".join("a%d = %d\n" % (i, 3000 + i) for i in range(300))),
    ("unicode", "\u00e9 = '\U0001F600'\n"),
    (
        "control",
        "async def f(a):\n    async with a as b:\n        yield [x for x in b if x]\ntry:\n    f(1)\nfinally:\n    z = 1\nwhile a:\n    break\n",
    ),
    ("far-lines", "x = 1\n" + "\n" * 300 + "y = f(\n" + "\n" * 130 + "x)\n"),
    # one-line suites: <=3.8 record extra line-table entries on argument-less instructions
    # source encodings the import system understands: a PEP 263 cookie and a UTF-8 BOM
    ("latin-1-cookie", b"# -*- coding: latin-1 -*-\ns = 'caf\xe9 \xc3\xa9'\n"),
    ("utf-8-bom", b"\xef\xbb\xbfs = 'bom \xc3\xa9'\n"),
    # whitespace-only lines inside a triple-quoted string and a docstring
    ("blank-lines-in-strings", 'x = """a\n  \n\t\nb"""\ndef f():\n    """doc\n    \n    more"""\n'),
    # the two characters backslash+n inside literals: only -c un-escapes them
    ("backslash-n", 'x = "a\\nb"\ny = r"\\n+"\n'),
    ("one-line-suites", "for i in a:\n    if i: break\ntry:\n    f()\nexcept E: pass\nclass A: pass\nclass A: pass\n"),
]

# -e expressions that build the same program text from `linesep` in a nested scope
E_EXPR = {"two-lines": "''.join(l + linesep for l in ['x = 1', 'y = x + 1'])"}


def text_of(src):
    if isinstance(src, bytes):
        import importlib.util

        return importlib.util.decode_source(src)
    return src


INSTR = re.compile(r"^\s*(\d+)?\s*(>>)?\s*(\d+) ([A-Z_+0-9]+)(?:\s+(-?\d+)(?: \((.*)\))?)?\s*$")
ADDR = re.compile(r" at 0x[0-9a-fA-F]+")


def listing(text):
    """Reduce dis output to [(opname, argrepr)] (EXTENDED_ARG dropped; jump targets and
    raw operand numbers are not compared: normalization may renumber them)."""
    out = []
    for line in text.splitlines():
        if line.startswith("Disassembly of "):
            out.append(("DISASSEMBLY-OF", ADDR.sub("", line)))
            continue
        m = INSTR.match(line)
        if not m:
            continue
        op, arg, rep = m.group(4), m.group(5), m.group(6)
        if op == "EXTENDED_ARG":
            continue
        if rep is None:
            rep = "" if arg is None else ("#" + arg)
        if rep.startswith("to "):
            rep = "to"
        out.append((op, ADDR.sub("", rep)))
    return out


def split_output(out):
    """(before, codedata_line, json_text, after)"""
    lines = out.split("\n")
    idx = None
    for i, l in enumerate(lines):
        if l.startswith("CodeData("):
            idx = i
            break
    if idx is None:
        return None
    before = "\n".join(lines[:idx])
    rest = lines[idx + 1 :]
    jtxt = None
    if rest and rest[0] == "{":
        for j, l in enumerate(rest):
            if l == "}":
                jtxt = "\n".join(rest[: j + 1])
                rest = rest[j + 1 :]
                break
    return before, lines[idx], jtxt, "\n".join(rest)


class Env(object):
    def __init__(self):
        self.dir = tempfile.mkdtemp(prefix="verif_cli_")
        self.files = {}
        for i, (name, src) in enumerate(PROGRAMS):
            p = os.path.join(self.dir, "prog_%d.py" % i)
            data = src if isinstance(src, bytes) else src.encode("utf-8", "surrogatepass")
            with open(p, "wb") as f:
                f.write(data)
            m = os.path.join(self.dir, "verifmod_%d.py" % i)
            with open(m, "wb") as f:
                f.write(data)
            self.files[i] = (p, "verifmod_%d" % i, m)
        sys.path.insert(0, self.dir)

    def close(self):
        try:
            sys.path.remove(self.dir)
        except ValueError:
            pass
        shutil.rmtree(self.dir, ignore_errors=True)


class C16(Monitor):
    prop = "C16"

    def __init__(self, tier):
        Monitor.__init__(self, tier)
        self.env = None

    def cases(self):
        for smask in range(16):
            for fmask in range(32):
                for pi in range(len(PROGRAMS)):
                    yield {"k": "argv", "s": "CLI", "sources": smask, "flags": fmask, "prog": pi}

        # the program file is a pipe, not a regular file (python-code-data /dev/stdin)
        for pi in range(len(PROGRAMS)):
            yield {"k": "pipe", "s": "PIPE", "prog": pi}

        # the other spelling of a short option with a value: attached (-cx=1, -mjson),
        # as with `python -cpass`; still exactly one source
        for smask in (2, 4, 8):
            for fmask in range(32):
                for pi in range(len(PROGRAMS)):
                    yield {"k": "argv", "s": "CLIA", "sources": smask, "flags": fmask, "prog": pi, "attached": 1}

    def predicted(self):
        return 16 * 32 * len(PROGRAMS) + len(PROGRAMS) + 3 * 32 * len(PROGRAMS)

    def finish(self, stats):
        if self.env is not None:
            self.env.close()
            self.env = None

    def argv_for(self, case):
        pi = case["prog"]
        path, mod, modpath = self.env.files[pi]
        src = text_of(PROGRAMS[pi][1])
        argv = []
        given = []
        # a second program for the extra sources, so that "which one won" is visible
        for bit, name in enumerate(SOURCES):
            if not (case["sources"] >> bit) & 1:
                continue
            given.append(name)
            if name == "file":
                argv.append(path)
            elif name == "-c":
                argv += ["-c", src.replace("\n", "\\n")]
            elif name == "-e":
                argv += ["-e", E_EXPR.get(PROGRAMS[pi][0], repr(src))]
            elif name == "-m":
                argv += ["-m", mod]
        if case.get("attached"):
            argv = [argv[0] + argv[1]]
        for bit, fl in enumerate(FLAGS):
            if (case["flags"] >> bit) & 1:
                argv.append(fl)
        return argv, given

    def expected_code(self, case, given):
        pi = case["prog"]
        path, mod, modpath = self.env.files[pi]
        raw = PROGRAMS[pi][1]
        src = text_of(raw)
        name = given[0]
        if name == "file":
            # a file is a program the way Python reads files: from its bytes
            with open(path, "rb") as f:
                return compile(f.read(), path, "exec", dont_inherit=True), src
        if name == "-m":
            with open(modpath, "rb") as f:
                data = f.read()
            return compile(data, modpath, "exec", dont_inherit=True), src
        if name == "-c":
            # the CLI's documented convention: -c un-escapes backslash+n
            src = src.replace("\n", "\\n").replace("\\n", "\n")
        return compile(src, "<string>", "exec", dont_inherit=True), src

    def run_inprocess(self, argv):
        from code_data import _cli

        out, err = io.StringIO(), io.StringIO()
        old = sys.argv
        sys.argv = ["python-code-data"] + argv
        code = 0
        try:
            with contextlib.redirect_stdout(out), contextlib.redirect_stderr(err):
                try:
                    with horizon(60.0):
                        _cli.main()
                except SystemExit as e:
                    code = e.code if isinstance(e.code, int) else (0 if e.code is None else 1)
        finally:
            sys.argv = old
        return code, out.getvalue(), err.getvalue()

    def run_subprocess(self, argv):
        env = dict(os.environ)
        env["PYTHONPATH"] = self.env.dir + os.pathsep + env.get("PYTHONPATH", "")
        env["PYTHONIOENCODING"] = "utf-8:surrogatepass"
        p = subprocess.Popen(
            [sys.executable, "-c", "import sys; sys.argv[0] = 'python-code-data'; from code_data._cli import main; main()"] + argv,
            stdout=subprocess.PIPE,
            stderr=subprocess.PIPE,
            env=env,
        )
        o, e = p.communicate(timeout=120)
        return p.returncode, o.decode("utf-8", "surrogatepass"), e.decode("utf-8", "surrogatepass")

    def check_pipe(self, case, stats):
        """`python-code-data /dev/stdin` with the program coming through a pipe."""
        pi = case["prog"]
        raw = PROGRAMS[pi][1]
        data = raw if isinstance(raw, bytes) else raw.encode("utf-8", "surrogatepass")
        stats.evaluations += 1
        stats.nontriv(("pipe", pi))
        env = dict(os.environ)
        env["PYTHONIOENCODING"] = "utf-8:surrogatepass"
        p = subprocess.Popen(
            [sys.executable, "-c", "import sys; sys.argv[0] = 'python-code-data'; from code_data._cli import main; main()", "/dev/stdin"],
            stdin=subprocess.PIPE,
            stdout=subprocess.PIPE,
            stderr=subprocess.PIPE,
            env=env,
        )
        o, e = p.communicate(data, timeout=120)
        out = o.decode("utf-8", "surrogatepass")
        if p.returncode != 0:
            stats.violation(case, "pipe-source-fails", "program %r given as /dev/stdin through a pipe: exit %s, stderr %s" % (PROGRAMS[pi][0], p.returncode, short(e.decode("utf-8", "replace"), 200)))
            return
        c = compile(data, "/dev/stdin", "exec", dont_inherit=True)
        want = CodeData.from_code(c).normalize()
        parts = split_output(out)
        if parts is None or parts[1] != repr(want):
            stats.violation(case, "pipe-source-differs", "program %r through a pipe: printed value is not the API's" % PROGRAMS[pi][0])
            return
        stats.outcomes["pipe-source-ok"] += 1

    def check(self, case, stats):
        if case["k"] == "pipe":
            return self.check_pipe(case, stats)
        if self.env is None:
            self.env = Env()
        argv, given = self.argv_for(case)
        stats.evaluations += 1
        if case.get("attached") and argv[0] in ("-c", "-e", "-m"):
            # an empty value has no attached spelling (`-c` alone is the option without a value)
            stats.skipped["empty-value-has-no-attached-spelling"] += 1
            return
        stats.nontriv(("argv", case["sources"], case["flags"], case["prog"], case.get("attached", 0)))
        if case["flags"] in (0, 31):
            stats.sample("CLI", {"argv": [short(a, 60) for a in argv]}, per=3)
        if len(given) == 1:
            try:
                self.expected_code(case, given)
            except SyntaxError:
                # e.g. -c un-escapes backslash+n inside a string literal: the text the
                # option designates is not a valid program; outside the property
                stats.skipped["not-a-valid-program-for-this-source-option"] += 1
                return
        try:
            code, out, err = self.run_inprocess(argv)
        except HorizonHit:
            stats.violation(case, "cli-no-termination", short(argv, 200))
            return
        except Exception as e:
            stats.violation(case, "cli-raises:" + type(e).__name__, "%s: %s" % (short(argv, 200), exc_summary(e)))
            return
        ok = self.judge(case, argv, given, code, out, err, stats)
        # bind the in-process fast path to the real entry point
        if ok and case["flags"] in (0, 31):
            try:
                c2, o2, e2 = self.run_subprocess(argv)
            except Exception as e:
                raise ref.HarnessError("subprocess run failed: %r" % (e,))
            if c2 != code or ADDR.sub("", o2) != ADDR.sub("", out):
                stats.violation(
                    case,
                    "subprocess-differs",
                    "the real entry point exits %s, in-process %s; stdout %s" % (c2, code, "equal" if ADDR.sub("", o2) == ADDR.sub("", out) else "differs"),
                )
                return
            stats.outcomes["subprocess-agrees"] += 1

    replay = check

    def judge(self, case, argv, given, code, out, err, stats):
        if len(given) != 1:
            if code != 2 or "usage" not in err.lower():
                stats.violation(
                    case,
                    "no-usage-error",
                    "%d program sources given (%s) but the command exits %s (stderr %s)" % (len(given), given, code, short(err, 120)),
                )
                return False
            stats.outcomes["usage-error:%d-sources" % len(given)] += 1
            return True
        if code != 0:
            stats.violation(case, "valid-invocation-fails", "one source (%s) given, exit status %s, stderr %s" % (given[0], code, short(err, 200)))
            return False
        flags = set(f for bit, f in enumerate(FLAGS) if (case["flags"] >> bit) & 1)
        c, src = self.expected_code(case, given)
        d = CodeData.from_code(c)
        want = d if "--no-normalize" in flags else d.normalize()
        parts = split_output(out)
        if parts is None:
            stats.violation(case, "no-codedata-printed", "stdout has no CodeData(...) line: %s" % short(out, 200))
            return False
        before, line, jtxt, after = parts
        if line != repr(want):
            stats.violation(
                case,
                "printed-codedata-differs",
                "printed value is not the API's %s result: %s" % ("un-normalized" if "--no-normalize" in flags else "normalized", textdiff(repr(want), line)),
            )
            return False
        if ("--json" in flags) != (jtxt is not None):
            stats.violation(case, "json-presence", "--json %s but a JSON document %s" % ("given" if "--json" in flags else "not given", "is printed" if jtxt else "is missing"))
            return False
        if jtxt is not None:
            try:
                doc = json.loads(jtxt)
                loaded = CodeData.from_json_data(doc)
            except Exception as e:
                stats.violation(case, "printed-json-unloadable:" + type(e).__name__, exc_summary(e))
                return False
            if skey(loaded, True) != skey(want, True) or not (loaded == want):
                stats.violation(case, "printed-json-differs", "from_json_data of the printed document is not the printed CodeData")
                return False
            stats.outcomes["json-ok"] += 1
        if "--source" in flags:
            if not before.startswith(src.rstrip("\n")) and src.strip():
                stats.violation(case, "source-not-printed", "--source given but stdout does not start with the program")
                return False
        mine = io.StringIO()
        dis.dis(c, file=mine)
        ref_listing = listing(mine.getvalue())
        if "--dis" in flags:
            if listing(before) != ref_listing:
                stats.violation(case, "dis-listing", "--dis does not list the program's instructions")
                return False
        elif listing(before):
            stats.violation(case, "dis-unrequested", "a disassembly is printed without --dis")
            return False
        if "--dis-after" in flags:
            got = listing(after)
            if got != ref_listing:
                stats.violation(case, "dis-after-differs", "--dis-after shows other instructions than dis of the program: %s" % first_listing_diff(ref_listing, got))
                return False
            stats.outcomes["dis-after-ok"] += 1
        elif listing(after):
            stats.violation(case, "dis-after-unrequested", "a second disassembly is printed without --dis-after")
            return False
        stats.outcomes["prints-api-result:" + given[0]] += 1
        return True


def textdiff(a, b):
    i = 0
    while i < min(len(a), len(b)) and a[i] == b[i]:
        i += 1
    return "expected ...%s | printed ...%s" % (a[max(0, i - 30) : i + 50], b[max(0, i - 30) : i + 50])


def first_listing_diff(a, b):
    for i, (x, y) in enumerate(zip(a, b)):
        if x != y:
            return "instruction %d: %s vs %s" % (i, x, y)
    return "%d vs %d instructions" % (len(a), len(b))


MONITORS = {"C16": C16}
