# C08: CodeData is an immutable value; hash/eq contract; type-exact equality.
# Python 3.7 compatible; also runs on 3.11-3.13 for the hand-built / JSON routes.
from __future__ import print_function

import dataclasses
import json
import os
import sys

import consts
import ref
import spaces
from core import PY, PYS, HorizonHit, Monitor, exc_summary, horizon
from strict import code_key, digest64, short, skey, walk_codes

import code_data as cd_mod
from code_data import (
    AdditionalLine,
    Args,
    Cellvar,
    CodeData,
    Constant,
    Freevar,
    Function,
    Instruction,
    Jump,
    Name,
    NoArg,
    Varname,
)

PRODUCER = (3, 7) <= PY <= (3, 10)
HAVE_CKEY = ref.HAVE_CKEY
H = 60.0  # per-call horizon (seconds): generous, it only turns non-termination into an observation


def one_const_code_data(v):
    return CodeData(
        blocks=((Instruction("LOAD_CONST", Constant(v), line_number=1), Instruction("RETURN_VALUE", line_number=1)),),
        filename="<verif>",
        first_line_number=1,
        name="<module>",
        stacksize=1,
    )


def flat_const(d):
    return d.blocks[0][0].arg.constant


def json_cycle(doc):
    return json.loads(json.dumps(doc, allow_nan=False))


def rebuild(v):
    """Field-by-field reconstruction of a CodeData value (fresh objects throughout)."""
    if dataclasses.is_dataclass(v) and not isinstance(v, type):
        return type(v)(**dict((f.name, rebuild(getattr(v, f.name))) for f in dataclasses.fields(v)))
    if type(v) is tuple:
        return tuple([rebuild(x) for x in v])
    if type(v) is frozenset:
        return frozenset([rebuild(x) for x in v])
    if type(v) is float:
        return float(repr(v)) if v == v else float("nan")
    if type(v) is complex:
        return complex(rebuild(v.real), rebuild(v.imag))
    if type(v) is int:
        return int(str(v))
    if type(v) is str:
        return "".join([c for c in v])
    if type(v) is bytes:
        return bytes(bytearray(v))
    return v


def single_field_deviations(d):
    yield "filename", d.filename + "x"
    yield "first_line_number", d.first_line_number + 1
    yield "name", d.name + "x"
    yield "stacksize", d.stacksize + 1
    yield "type", (None if d.type is not None else Function(Args()))
    if d.type is not None:
        yield "type", dataclasses.replace(d.type, docstring=(d.type.docstring or "") + "x")
        yield "type", dataclasses.replace(d.type, type="GENERATOR" if d.type.type != "GENERATOR" else "COROUTINE")
        yield "type", dataclasses.replace(d.type, args=dataclasses.replace(d.type.args, keyword_only=d.type.args.keyword_only + ("zz_k",)))
    yield "freevars", d.freevars + ("zz_free",)
    yield "future_annotations", not d.future_annotations
    yield "_nested", not d._nested
    yield "_additional_line", (AdditionalLine(7) if d._additional_line is None else None)
    yield "_additional_line", AdditionalLine(8, (1, 2))
    yield "_additional_args", d._additional_args + (Name("zz_extra"),)
    if d.blocks and d.blocks[0]:
        i0 = d.blocks[0][0]
        yield "blocks", ((dataclasses.replace(i0, line_number=(i0.line_number or 0) + 1),) + d.blocks[0][1:],) + d.blocks[1:]
        yield "blocks", ((dataclasses.replace(i0, _n_args_override=3),) + d.blocks[0][1:],) + d.blocks[1:]
        yield "blocks", ((dataclasses.replace(i0, _line_offsets_override=(1,)),) + d.blocks[0][1:],) + d.blocks[1:]


def oracle_class(v):
    """Reference partition of constants: CPython's _PyCode_ConstantKey with NaNs
    merged (3.7-3.10); the harness's strict key with NaNs identified elsewhere.  On
    the producers the two are cross-checked pair by pair."""
    return skey(v, True)


DATACLASSES = [CodeData, Instruction, Jump, Name, Varname, Constant, Freevar, Cellvar, NoArg, Args, Function, AdditionalLine]


def sample_instances():
    return [
        one_const_code_data(1),
        Instruction("NOP"),
        Jump(0, True),
        Name("n"),
        Varname("v"),
        Constant(1.5),
        Freevar("f"),
        Cellvar("c"),
        NoArg(),
        Args(("a",), ("b",), "c", ("d",), "e"),
        Function(Args(), "doc", "GENERATOR"),
        AdditionalLine(3, (1,)),
    ]


class C08(Monitor):
    prop = "C08"
    interpreters = ("3.7", "3.8", "3.9", "3.10", "3.11", "3.12", "3.13")

    def __init__(self, tier):
        Monitor.__init__(self, tier)
        self._c = None
        self._v = None

    # -- spaces -------------------------------------------------------------------
    DEAD_KM = (1, 2)

    def nprog(self):
        return (300 if self.tier == "quick" else 600) + 4 * len(self.DEAD_KM) ** 2

    def programs(self):
        out = []
        for c in spaces.with_modes(spaces.prog_Pa()):
            out.append(c)
        # a spread over the whole stratum rather than its first rows
        out = spaces.spread(out, 300 if self.tier == "quick" else 600)
        # functions with 1-2 unreachable lines after `return`: before 3.10 they decode to
        # an AdditionalLine with several additional offsets (a tuple that must stay one)
        for k in self.DEAD_KM:
            for m in self.DEAD_KM:
                for src in spaces._dead_sources(k, m):
                    out.append({"k": "src", "s": "Lx", "src": src, "mode": "exec", "opt": 0})
        return out

    def cases(self):
        if getattr(self, "stage", 1) == 2:
            # second stage, other string-hash seed: values pickled by stage 1
            if PRODUCER:
                yield {"k": "unpickle", "s": "PK"}
            return
        n = consts.size(self.tier)
        for i in range(n):
            yield {"k": "constrow", "s": "K", "i": i}
        for i in range(len(DATACLASSES)):
            yield {"k": "frozen", "s": "FZ", "i": i}
        if PRODUCER:
            for i in range(self.nprog()):
                yield {"k": "progrow", "s": "PR", "i": i}

    def predicted(self):
        if getattr(self, "stage", 1) == 2:
            return 1 if PRODUCER else 0
        return consts.size(self.tier) + len(DATACLASSES) + (self.nprog() if PRODUCER else 0)

    # -- const pairs ----------------------------------------------------------------
    def const_tables(self):
        if self._c is None:
            A = consts.build(self.tier)
            B = consts.build(self.tier)  # independent second copy
            if len(A) != consts.size(self.tier):
                raise ref.HarnessError("S-CONST size %d != predicted %d" % (len(A), consts.size(self.tier)))
            rows = []
            for (ra, va), (rb, vb) in zip(A, B):
                rows.append(
                    {
                        "recipe": ra,
                        "a": va,
                        "b": vb,
                        "ka": oracle_class(va),
                        "Ca": Constant(va),
                        "Cb": Constant(vb),
                        "Da": one_const_code_data(va),
                        "Db": one_const_code_data(vb),
                    }
                )
            for r in rows:
                try:
                    r["Ja"] = CodeData.from_json_data(json_cycle(r["Da"].to_json_data()))
                    # whatever the JSON route produced is judged by its own content
                    # (loss in the JSON route is C07's business)
                    r["kJ"] = skey(flat_const(r["Ja"]), True)
                except Exception as e:
                    r["Ja"] = None
                if HAVE_CKEY:
                    r["ck"] = ref.constant_class(r["a"])
            self._c = rows
        return self._c

    def check(self, case, stats):
        k = case["k"]
        if k == "constrow":
            self.const_row(case, stats)
        elif k == "frozen":
            self.frozen(case, stats)
        elif k == "progrow":
            self.prog_row(case, stats)
        elif k == "unpickle":
            self.unpickle(case, stats)

    replay = check

    def const_row(self, case, stats):
        rows = self.const_tables()
        i = case["i"]
        ri = rows[i]
        stats.sample("K", {"recipe": ri["recipe"], "value": short(ri["a"], 60)}, per=2)
        only = case.get("j")
        for j, rj in enumerate(rows):
            if only is not None and j != only:
                continue
            stats.evaluations += 1
            want = ri["ka"] == rj["ka"]
            if HAVE_CKEY and (ri["ck"] == rj["ck"]) != want:
                raise ref.HarnessError("strict key and _PyCode_ConstantKey partitions disagree on %s / %s" % (short(ri["a"]), short(rj["a"])))
            if want:
                stats.nontriv(("eqpair", i, j))
            sub = dict(case, j=j)
            # x from the first copy, y from the independent second copy / JSON route
            for (na, x, kx), (nb, y, ky) in (
                (("Ca", ri["Ca"], ri["ka"]), ("Cb", rj["Cb"], rj["ka"])),
                (("Da", ri["Da"], ri["ka"]), ("Db", rj["Db"], rj["ka"])),
                (("Da", ri["Da"], ri["ka"]), ("Ja", rj["Ja"], rj.get("kJ"))),
            ):
                if y is None:
                    continue
                want = kx == ky
                what = "%s(%s) vs %s(%s)" % (na, short(ri["a"], 50), nb, short(rj["a"], 50))
                try:
                    eq = x == y
                    eq2 = y == x
                    ne = x != y
                except Exception as e:
                    stats.violation(sub, "eq-raises:" + type(e).__name__, what + ": " + exc_summary(e))
                    return
                if eq is not True and eq is not False:
                    stats.violation(sub, "eq-not-bool", what)
                    return
                if eq != eq2:
                    stats.violation(sub, "eq-not-symmetric", what + ": x==y is %r, y==x is %r" % (eq, eq2))
                    return
                if ne == eq:
                    stats.violation(sub, "ne-inconsistent", what + ": x==y and x!=y are both %r" % eq)
                    return
                if eq != want:
                    stats.violation(
                        sub,
                        "eq-too-coarse" if eq else "eq-too-fine",
                        what + ": == is %r but CPython's constant table %s them" % (eq, "merges" if want else "distinguishes"),
                    )
                    return
                if eq:
                    try:
                        hx, hy = hash(x), hash(y)
                    except Exception as e:
                        stats.violation(sub, "unhashable:" + type(e).__name__, what + ": " + exc_summary(e))
                        return
                    if hx != hy:
                        stats.violation(sub, "hash-contract", what + ": equal but hash %d != %d" % (hx, hy))
                        return
                    if y not in set([x]) or x not in {y: 1}:
                        stats.violation(sub, "set-membership", what + ": equal values do not find each other in a set/dict")
                        return
                    stats.outcomes["equal-pair-ok"] += 1
                else:
                    stats.outcomes["unequal-pair-ok"] += 1
            # reflexive on the very same object
        x = ri["Da"]
        if not (x == x) or hash(x) != hash(x):
            stats.violation(case, "not-reflexive", "x == x fails for %s" % short(ri["a"]))
            return
        if PRODUCER and only is None:
            # equal CodeData encode to identical code objects (NaNs identified)
            try:
                with horizon(H):
                    ca = ri["Da"].to_code()
                    cb = ri["Db"].to_code()
                    cj = ri["Ja"].to_code() if ri["Ja"] is not None else ca
            except HorizonHit:
                stats.violation(case, "to_code-no-termination", short(ri["a"]))
                return
            except Exception as e:
                stats.violation(case, "to_code-raises:" + type(e).__name__, "one-instruction CodeData loading %s: %s" % (short(ri["a"]), exc_summary(e)))
                return
            stats.outcomes["equal-values-encode-identically"] += 1
            if code_key(ca, True) != code_key(cb, True) or code_key(ca, True) != code_key(cj, True):
                stats.violation(case, "equal-but-different-code", "equal CodeData for %s encode to different code objects" % short(ri["a"]))
                return
            if skey(ca.co_consts[0], True) != ri["ka"]:
                # the constant that was loaded is the one that was given
                stats.violation(case, "encoded-constant-differs", "LOAD_CONST %s encodes constant %s" % (short(ri["a"]), short(ca.co_consts[0])))
                return

    # -- values that crossed a process (and string-hash seed) boundary by pickle ------
    def dump_pickles(self, i, case, row):
        import pickle

        if not getattr(self, "shared", None):
            return
        recs = []
        for r, v, k in row:
            if r in ("decode", "normalize", "json"):
                hash(v)  # whatever the value caches about itself is cached now
                recs.append((r, pickle.dumps(v)))
        with open(os.path.join(self.shared, "c08_%s_%d.pkl" % (PYS, os.getpid())), "ab") as f:
            pickle.dump((i, case, recs), f)

    def unpickle(self, case, stats):
        import pickle

        files = sorted(fn for fn in os.listdir(self.shared) if fn.startswith("c08_%s_" % PYS))
        n = 0
        for fn in files:
            with open(os.path.join(self.shared, fn), "rb") as f:
                while True:
                    try:
                        i, pcase, recs = pickle.load(f)
                    except EOFError:
                        break
                    code = spaces.build_code(pcase)
                    d = CodeData.from_code(code)
                    fresh = {"decode": d, "normalize": d.normalize(), "json": CodeData.from_json_data(json_cycle(d.to_json_data()))}
                    for r, blob in recs:
                        n += 1
                        stats.evaluations += 1
                        x = pickle.loads(blob)
                        y = fresh[r]
                        sub = {"k": "unpickle", "s": "PK", "program": pcase.get("src"), "route": r}
                        if skey(x, True) != skey(y, True) or not (x == y):
                            stats.violation(sub, "unpickled-differs", "a pickled %s value differs from the freshly computed one" % r)
                            return
                        if hash(x) != hash(y) or y not in set([x]):
                            stats.violation(sub, "hash-contract-across-processes", "an unpickled CodeData (route %s) equals the freshly computed one but has another hash / is not found in a set" % r)
                            return
                        stats.nontriv(("pk", i, r))
        if n == 0:
            raise ref.HarnessError("stage 2 found no pickles from stage 1")
        stats.sample("PK", {"pickled values compared": n}, per=1)
        stats.outcomes["unpickled-equal-and-hash-equal"] += 1

    # -- immutability ---------------------------------------------------------------
    def frozen(self, case, stats):
        inst = sample_instances()[case["i"]]
        T = type(inst)
        if T is not DATACLASSES[case["i"]]:
            raise ref.HarnessError("sample instance table out of step")
        stats.sample("FZ", {"type": T.__name__}, per=1)
        for f in dataclasses.fields(inst):
            stats.evaluations += 1
            stats.nontriv(("frozen", T.__name__, f.name))
            before = skey(inst)
            try:
                setattr(inst, f.name, getattr(inst, f.name))
                stats.violation(case, "mutable:setattr", "%s.%s can be reassigned" % (T.__name__, f.name))
                return
            except dataclasses.FrozenInstanceError:
                pass
            except Exception as e:
                stats.violation(case, "setattr-other-exception", "%s.%s: %s" % (T.__name__, f.name, exc_summary(e)))
                return
            try:
                delattr(inst, f.name)
                stats.violation(case, "mutable:delattr", "%s.%s can be deleted" % (T.__name__, f.name))
                return
            except dataclasses.FrozenInstanceError:
                pass
            except Exception as e:
                stats.violation(case, "delattr-other-exception", "%s.%s: %s" % (T.__name__, f.name, exc_summary(e)))
                return
            if skey(inst) != before:
                stats.violation(case, "mutated", "%s changed" % T.__name__)
                return
        try:
            inst.brand_new_attribute = 1
            stats.violation(case, "mutable:new-attribute", "%s accepts new attributes" % T.__name__)
            return
        except dataclasses.FrozenInstanceError:
            pass
        except AttributeError:
            pass
        try:
            hash(inst)
        except Exception as e:
            stats.violation(case, "unhashable:" + type(e).__name__, "%s instance is not hashable" % T.__name__)
            return
        stats.outcomes["frozen-ok"] += 1

    # -- CodeData pairs across routes -------------------------------------------------
    def values(self):
        if self._v is None:
            V = []
            progs = self.programs()
            if len(progs) != self.nprog():
                raise ref.HarnessError("program subset has %d entries, expected %d" % (len(progs), self.nprog()))
            for pi, case in enumerate(progs):
                try:
                    c1 = spaces.build_code(case)
                    c2 = spaces.build_code(case)
                except SyntaxError:
                    V.append([])
                    continue
                row = []
                try:
                    d1 = CodeData.from_code(c1)
                    d2 = CodeData.from_code(c2)
                    n = d1.normalize()
                    row.append(("decode", d1))
                    row.append(("decode2", d2))
                    row.append(("normalize", n))
                    row.append(("json", CodeData.from_json_data(json_cycle(d1.to_json_data()))))
                    row.append(("json-normalized", CodeData.from_json_data(json_cycle(n.to_json_data()))))
                    row.append(("rebuilt", rebuild(d1)))
                    row.append(("decode-of-encode", CodeData.from_code(d1.to_code())))
                    # one-field deviations: a value differing in exactly one field is a
                    # different value (it encodes to a different code object)
                    for fname, nv in single_field_deviations(d1):
                        dv = dataclasses.replace(d1, **{fname: nv})
                        row.append(("deviate:" + fname, dv))
                        if fname.startswith("_"):
                            # and what a JSON cycle makes of it (must be the same value)
                            row.append(("deviate-json:" + fname, CodeData.from_json_data(json_cycle(dv.to_json_data()))))
                except Exception as e:
                    pass  # other properties' business; compare what exists
                V.append([(r, v, skey(v, True)) for r, v in row])
            self._v = (progs, V)
        return self._v

    def prog_row(self, case, stats):
        progs, V = self.values()
        i = case["i"]
        stats.sample("PR", {"program": progs[i]["src"], "routes": [r for r, v, k in V[i]]}, per=1)
        if V[i] and case.get("j") is None:
            self.dump_pickles(i, progs[i], V[i])
        # every code object of the program decoded on its own is a hashable value (a
        # parent that hashes its children while being decoded would hide this behind a
        # from_code failure, which is other properties' business)
        try:
            root = spaces.build_code(progs[i])
        except SyntaxError:
            root = None
        if root is not None:
            for path, cc in walk_codes(root):
                try:
                    dd = CodeData.from_code(cc)
                except Exception:
                    stats.skipped["nested-decode-fails"] += 1
                    continue
                stats.evaluations += 1
                try:
                    hash(dd)
                    hash(dd.normalize())
                except TypeError as e:
                    stats.violation(dict(case, cpath=list(path)), "unhashable:" + type(e).__name__, "decoded code object %s of the program: %s" % (list(path), exc_summary(e)))
                    return
        if not V[i]:
            stats.skipped["not-compilable" if root is None else "decode-fails"] += 1
            return
        codes = {}
        for (ri, x, kx) in V[i]:
            try:
                hx = hash(x)
            except Exception as e:
                stats.violation(dict(case, route=ri), "unhashable:" + type(e).__name__, "route %s: %s" % (ri, exc_summary(e)))
                return
            for j, row in enumerate(V):
                for (rj, y, ky) in row:
                    # single-field deviations are compared within their own program
                    if j != i and (ri.startswith("deviate:") or rj.startswith("deviate:")):
                        continue
                    stats.evaluations += 1
                    want = kx == ky
                    try:
                        eq = x == y
                    except Exception as e:
                        stats.violation(dict(case, route=ri, j=j, route2=rj), "eq-raises:" + type(e).__name__, exc_summary(e))
                        return
                    if eq != want:
                        stats.violation(
                            dict(case, route=ri, j=j, route2=rj),
                            "codedata-eq-too-coarse" if eq else "codedata-eq-too-fine",
                            "program %d route %s vs program %d route %s: == is %r, strict comparison (NaNs identified) says %r" % (i, ri, j, rj, eq, want),
                        )
                        return
                    if eq:
                        if hash(y) != hx:
                            stats.violation(
                                dict(case, route=ri, j=j, route2=rj),
                                "hash-contract",
                                "program %d: route %s == route %s but hashes differ" % (i, ri, rj),
                            )
                            return
                        if y not in set([x]):
                            stats.violation(dict(case, route=ri, j=j, route2=rj), "set-membership", "equal values do not find each other in a set")
                            return
                        if i != j or ri != rj:
                            stats.nontriv(("eqroutes", i, ri, j, rj))
                        stats.outcomes["route-pair-equal"] += 1
            try:
                with horizon(H):
                    codes[ri] = code_key(x.to_code(), True)
            except Exception:
                pass
        # equal values encode identically (within this program's routes)
        for (ri, x, kx) in V[i]:
            for (rj, y, ky) in V[i]:
                if kx == ky and ri in codes and rj in codes and codes[ri] != codes[rj]:
                    stats.violation(dict(case, route=ri, route2=rj), "equal-but-different-code", "routes %s and %s are equal but encode to different code objects" % (ri, rj))
                    return


MONITORS = {"C08": C08}
