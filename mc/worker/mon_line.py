# C10: the line-table codec agrees with CPython for everything its assembler emits.
# R-ASM: executable models of CPython's two line-table assemblers, bound to CPython by
# conformance (compile()-realizable line programs: model bytes == real table) and by
# read-back (PyCode_Addr2Line on a real code object carrying the model's table).
# Python 3.7 compatible.
from __future__ import print_function

import ast
import dis
import itertools
import sys

import ref
import spaces
from core import PY, PYS, HorizonHit, Monitor, exc_summary, horizon
from mon_code import H, CodeMonitor, hz, progs_strata
from strict import LINE_ATTR, code_key, digest64, short, walk_codes

from code_data._line_mapping import from_line_mapping, to_line_mapping
from code_data import _line_mapping as LM

LINETABLE = PY >= (3, 10)
FIRST = 2000  # co_firstlineno of synthetic objects: keeps every line positive

B_ALL = [2, 4, 252, 254, 256, 258, 508, 510, 512, 764, 1020]
D_ALL = [0, 1, -1, 126, -126, 127, -127, 128, -128, 129, -129, 253, -253, 254, -254, 255, -255, 256, -256, -257, 381, -384]
D_Q = [0, 1, -1, 127, -127, 128, -128, 129, -129, 254, -254, 255, -256, -257, 381, -384]
B_RED = [2, 254, 256, 510, 764]
D_RED = [0, 1, -1, 127, -127, 128, -128, 129, 254, -256, 381]


# ----------------------------------------------------------------------------- R-ASM
def asm_lnotab(events):
    """Model of assemble_lnotab (3.7-3.9).  events: [(d_bytecode, d_lineno)] as seen
    by successive calls that do emit.  Returns list of (byte, signed line) pairs."""
    out = []
    for d_b, d_l in events:
        if PY >= (3, 9):
            if d_l == 0:
                raise ValueError("3.9 never emits for a zero line delta")
        elif d_b == 0 and d_l == 0:
            raise ValueError("nothing to emit")
        if d_b > 255:
            n = d_b // 255
            out.extend([(255, 0)] * n)
            d_b -= n * 255
        if d_l < -128 or d_l > 127:
            if d_l < 0:
                k = -128
                n = (-d_l) // 128
            else:
                k = 127
                n = d_l // 127
            d_l -= n * k
            out.append((d_b, k))
            d_b = 0
            out.extend([(0, k)] * (n - 1))
        out.append((d_b, d_l))
    return out


def asm_linetable(ranges, first):
    """Model of 3.10's assemble_line_range.  ranges: [(nbytes, line|None)], adjacent
    ranges have different lines."""
    out = []
    prev = first
    for nbytes, line in ranges:
        if nbytes == 0:
            continue
        if line is None:
            ld = -128
        else:
            ld = line - prev
            prev = line
            while ld > 127:
                out.append((0, 127))
                ld -= 127
            while ld < -127:
                out.append((0, -127))
                ld += 127
        bd = nbytes
        while bd > 254:
            out.append((254, ld))
            ld = -128 if line is None else 0
            bd -= 254
        out.append((bd, ld))
    return out


def pairs_to_bytes(pairs):
    b = bytearray()
    for x, y in pairs:
        b.append(x)
        b.append(y & 255)
    return bytes(b)


_BASE = compile("pass", "<verif>", "exec", dont_inherit=True)
NOP = dis.opmap["NOP"]


def carrier(nbytes, table, first=FIRST):
    """A real code object of nbytes of bytecode carrying the given line table."""
    kw = {"co_code": bytes([NOP, 0]) * (nbytes // 2), "co_firstlineno": first, LINE_ATTR: table}
    return ref.code_replace(_BASE, **kw)


# ------------------------------------------------------------------ abstract programs
def lp_cases(tier):
    """S-LINE through the models: sequences of steps over B x (D | no-line)."""
    D = D_ALL if tier == "thorough" else D_Q
    if LINETABLE:
        steps = [(b, d) for b in B_ALL for d in D + [None]]
        red = [(b, d) for b in B_RED for d in D_RED + [None]]
        for n in (1, 2):
            for seq in itertools.product(steps, repeat=n):
                yield {"k": "lp", "s": "LP", "seq": [list(x) for x in seq]}
        if tier == "thorough":
            for seq in itertools.product(red, repeat=3):
                yield {"k": "lp", "s": "LP3", "seq": [list(x) for x in seq]}
    else:
        # events (d_bytecode, d_lineno): d_bytecode may be 0 (first line of a block, or
        # entries the peephole optimizer collapsed); tail = bytes after the last event
        # (0: a trailing entry at len(co_code))
        bs = [0] + B_ALL
        steps = [(b, d) for b in bs for d in D if not (d == 0 and (PY >= (3, 9) or b == 0))]
        red = [(b, d) for b in [0] + B_RED for d in D_RED if not (d == 0 and (PY >= (3, 9) or b == 0))]
        # Only the first event can have d_bytecode == 0: assemble_lnotab is called at
        # distinct instruction offsets.  (Later zero-width *events* exist only as
        # products of the peephole optimizer, which is not the assembler; the ones real
        # code contains are covered by the program/corpus strata.)
        # Update: later events with d_bytecode == 0 are not emitted by the assembler
        # itself, but the peephole optimizer produces them from what the assembler
        # emitted (it shrinks byte deltas to 0 when it removes unreachable code and
        # keeps the line deltas), and real compiled code contains them (stratum Lx), so
        # they are part of "every table found in real compiled code": enumerated.
        later = list(steps)
        later_red = list(red)
        for tail in (0, 2, 300):
            for first in steps:
                yield {"k": "lp", "s": "LP", "seq": [list(first)], "tail": tail}
                for second in later:
                    yield {"k": "lp", "s": "LP", "seq": [list(first), list(second)], "tail": tail}
            if tier == "thorough":
                for first in red:
                    for second in later_red:
                        for third in later_red:
                            yield {"k": "lp", "s": "LP3", "seq": [list(first), list(second), list(third)], "tail": tail}


def n_lp_cases(tier):
    nD = len(D_ALL) if tier == "thorough" else len(D_Q)
    if LINETABLE:
        s = len(B_ALL) * (nD + 1)
        r = len(B_RED) * (len(D_RED) + 1)
        return s + s * s + (r ** 3 if tier == "thorough" else 0)
    nz = 1 if PY < (3, 9) else 0  # zero line delta allowed with d_bytecode > 0 on 3.7/3.8
    s = (len(B_ALL) + 1) * (nD - 1) + len(B_ALL) * nz
    s2 = s
    r = (len(B_RED) + 1) * (len(D_RED) - 1) + len(B_RED) * nz
    r2 = r
    return 3 * (s + s * s2 + (r * r2 * r2 if tier == "thorough" else 0))


def ast_cases(tier):
    """S-LINE through CPython itself: statements `x = -...-x` with chosen lengths and
    chosen line numbers compiled by the real compiler."""
    ks = [1, 124, 125, 126, 127, 252, 253, 254, 380]  # k negations: 2*(k+2) bytes
    ds = D_ALL if tier == "thorough" else [0, 1, -1, 127, -127, 128, -128, 129, -129, 254, -254, 255, 256, -256, 381, -384]
    for k1 in ks:
        for d1 in ds:
            for k2 in ks:
                for d2 in ds:
                    yield {"k": "ast", "s": "AST", "st": [[1, 0], [k1, d1], [k2, d2]]}
    # value expression on another line than its statement (3.8+ tracks it)
    for k1 in ks[:4]:
        for d1 in ds:
            for d2 in ds:
                yield {"k": "ast", "s": "ASTV", "st": [[k1, 0, d1], [1, d2]]}


def n_ast_cases(tier):
    nd = len(D_ALL) if tier == "thorough" else 16
    return 9 * nd * 9 * nd + 4 * nd * nd


def build_ast_code(case):
    base = 1000
    line = base
    stmts = []
    for st in case["st"]:
        k, d = st[0], st[1]
        line += d
        e = ast.Name("x", ast.Load())
        for _ in range(k):
            e = ast.UnaryOp(ast.USub(), e)
        s = ast.Assign([ast.Name("x", ast.Store())], e)
        for n in ast.walk(s):
            n.lineno = line
            n.col_offset = 0
            n.end_lineno = line
            n.end_col_offset = 0
        if len(st) > 2:
            for n in ast.walk(e):
                n.lineno = line + st[2]
                n.end_lineno = line + st[2]
        stmts.append(s)
    m = ast.Module(stmts, []) if PY >= (3, 8) else ast.Module(stmts)
    return compile(m, "<verif-ast>", "exec", dont_inherit=True)


# ------------------------------------------------------------------------- the check
class C10(CodeMonitor):
    prop = "C10"
    level = "model_checking"

    def __init__(self, tier):
        CodeMonitor.__init__(self, tier)
        want = ("Pa", "F", "L", "Ld", "Lx", "R") if tier == "quick" else None
        self._strata = [
            ("LP", lambda: lp_cases(tier), n_lp_cases(tier)),
            ("AST", lambda: ast_cases(tier), n_ast_cases(tier)),
        ] + progs_strata(tier, False, want)
        self.tables = set()

    def check(self, case, stats):
        k = case["k"]
        if k == "lp":
            self.check_lp(case, stats)
        elif k == "ast":
            self.check_ast(case, stats)
        else:
            CodeMonitor.check(self, case, stats)

    def replay(self, case, stats):
        if case["k"] in ("lp", "ast"):
            self.check(case, stats)
        else:
            CodeMonitor.replay(self, case, stats)

    # -- model line programs ------------------------------------------------------
    def check_foreign(self, case, stats):
        """The same line program in the *other* table format, through the six stage
        functions with the format flag turned round, before the native judgement: both
        formats are one code path, and a process that handled one of them must not
        behave differently on the other (re-encoding reproduces the model's table)."""
        f = not LINETABLE
        if f:
            ranges = []
            line = FIRST
            for b, d in case["seq"]:
                if b == 0:
                    continue
                line += d
                if ranges and ranges[-1][1] == line:
                    ranges[-1] = (ranges[-1][0] + b, line)
                else:
                    ranges.append((b, line))
            if not ranges:
                return
            pairs = asm_linetable(ranges, FIRST)
            nbytes = sum(b for b, l in ranges)
        else:
            events = [(b, d) for b, d in case["seq"] if d]
            if not events:
                return
            pairs = asm_lnotab(events)
            nbytes = sum(b for b, d in events) + 2
        table = pairs_to_bytes(pairs)
        stats.evaluations += 1
        try:
            with horizon(60):
                m = LM.items_to_mapping(LM.collapse_items(LM.bytes_to_items(table), f), nbytes, f)
                back = LM.items_to_bytes(LM.expand_items(LM.mapping_to_items(m, f), f))
        except HorizonHit:
            stats.violation(case, "other-format-no-termination", "stage functions did not return on %s" % show(table))
            return False
        except Exception as e:
            stats.violation(case, "other-format-raises:" + type(e).__name__, "%s on table %s (is_linetable=%r)" % (exc_summary(e), show(table), f))
            return False
        if back != table:
            stats.violation(case, "other-format-reencode-differs", "is_linetable=%r: table %s re-encodes as %s" % (f, show(table), show(back)))
            return False
        stats.outcomes["other-format-ok"] += 1

    def check_lp(self, case, stats):
        if self.check_foreign(case, stats) is False:
            return
        seq = case["seq"]
        if LINETABLE:
            ranges = []
            line = FIRST
            for b, d in seq:
                if d is None:
                    new = None
                else:
                    line = line + d
                    new = line
                if ranges and ranges[-1][1] == new:
                    ranges[-1] = (ranges[-1][0] + b, new)  # the assembler merges
                else:
                    ranges.append((b, new))
            pairs = asm_linetable(ranges, FIRST)
            nbytes = sum(b for b, l in ranges)
            expect = []
            for b, l in ranges:
                expect.extend([l] * (b // 2))
        else:
            events = [tuple(x) for x in seq]
            pairs = asm_lnotab(events)
            tail = case["tail"]
            nbytes = sum(b for b, d in events) + tail
            expect = []
            line = FIRST
            # CPython reads: an entry applies from its offset on; entries at the same
            # offset accumulate
            marks = {}
            off = 0
            for b, d in events:
                off += b
                marks[off] = marks.get(off, 0) + d
            for o in range(0, nbytes, 2):
                if o in marks:
                    line += marks[o]
                expect.append(line)
            if nbytes == 0:
                stats.skipped["empty-code"] += 1
                return
        table = pairs_to_bytes(pairs)
        code = carrier(nbytes, table)
        # bind the model to CPython: its own reader must read the program back
        for i, want in enumerate(expect):
            got = ref.addr2line(code, 2 * i)
            if got != want:
                raise ref.HarnessError(
                    "R-ASM model table %r: CPython reads line %r at offset %d, the line program says %r" % (pairs, got, 2 * i, want)
                )
        stats.traces_validated += 1
        self.judge_table(case, code, stats, synthetic=True)

    # -- through the real compiler ---------------------------------------------------
    def check_ast(self, case, stats):
        try:
            code = build_ast_code(case)
        except (ValueError, SyntaxError, RecursionError) as e:
            stats.skipped["ast-not-compilable:" + type(e).__name__] += 1
            return
        table = getattr(code, LINE_ATTR)
        # conformance of the model with the real assembler
        model = self.model_of_real(case, code)
        if model is not None:
            if pairs_to_bytes(model) != table:
                raise ref.HarnessError(
                    "R-ASM model disagrees with the real assembler on %r: model %r, real %r"
                    % (case, model, [(table[i], table[i + 1] - 256 if table[i + 1] > 127 else table[i + 1]) for i in range(0, len(table), 2)])
                )
            stats.traces_validated += 1
            stats.reach["model-conforms-to-compile"] += 1
        self.judge_table(case, code, stats, synthetic=False)

    def model_of_real(self, case, code):
        if LINETABLE:
            # abstract program = CPython's own reading, merged
            ranges = []
            for start, end, line in code.co_lines():
                if ranges and ranges[-1][1] == line:
                    ranges[-1] = (ranges[-1][0] + end - start, line)
                else:
                    ranges.append((end - start, line))
            return asm_linetable(ranges, code.co_firstlineno)
        if any(len(st) > 2 for st in case["st"]):
            return None
        events = []
        line = 1000
        prev_line = code.co_firstlineno
        pending_b = 0
        for st in case["st"]:
            k, d = st[0], st[1]
            line += d
            d_l = line - prev_line
            if (d_l == 0 and PY >= (3, 9)) or (d_l == 0 and pending_b == 0):
                pass
            else:
                events.append((pending_b, d_l))
                prev_line = line
                pending_b = 0
            pending_b += 2 * (k + 2)
        return asm_lnotab(events)

    # -- tables found in compiled programs ------------------------------------------
    def check_code(self, case, code, stats):
        if LINETABLE:
            # every real 3.10 table must be what the model emits for CPython's reading
            ranges = []
            for start, end, line in code.co_lines():
                if ranges and ranges[-1][1] == line:
                    ranges[-1] = (ranges[-1][0] + end - start, line)
                else:
                    ranges.append((end - start, line))
            if pairs_to_bytes(asm_linetable(ranges, code.co_firstlineno)) == code.co_linetable:
                stats.traces_validated += 1
            else:
                stats.reach["real-table-not-model-shaped"] += 1
        self.judge_table(case, code, stats, synthetic=False)

    # -- the oracle ------------------------------------------------------------------
    def judge_table(self, case, code, stats, synthetic):
        table = getattr(code, LINE_ATTR)
        key = (table, len(code.co_code), code.co_firstlineno)
        if key in self.tables:
            stats.reach["duplicate-table"] += 1
            return
        self.tables.add(key)
        stats.states += 1
        if case["k"] in ("lp", "ast"):
            stats.evaluations += 1
        feats = table_features(table)
        for f in feats:
            stats.reach["table:" + f] += 1
        if feats:
            stats.nontriv(key)
        try:
            with horizon(hz(code)):
                m = to_line_mapping(code)
                stats.transitions += 3
                lines = dict(m.offset_to_line)
                addl = dict((k, list(v)) for k, v in m.offset_to_additional_line_offsets.items())
                m.modify_line_offsets(code.co_firstlineno)
                shifted = dict(m.offset_to_line)
        except HorizonHit:
            stats.violation(case, "decode-no-termination", "to_line_mapping did not return")
            return
        except Exception as e:
            stats.violation(case, "decode-raises:" + type(e).__name__, "to_line_mapping raises %s on table %s" % (exc_summary(e), show(table)))
            return
        n = len(code.co_code)
        for off in range(0, n, 2):
            want = ref.addr2line(code, off)
            got = shifted.get(off, "missing")
            if got != want:
                stats.violation(
                    case,
                    "decoded-line",
                    "table %s (code %d bytes, first line %d): offset %d decodes to line %r, CPython reads %r"
                    % (show(table), n, code.co_firstlineno, off, got, want),
                )
                return
        extra = [o for o in shifted if o >= n + 2 or o % 2 or o < 0]
        if extra:
            stats.violation(case, "decoded-offsets", "mapping has offsets outside the code: %s" % short(sorted(extra)))
            return
        # encode what was decoded (fresh mapping: the decoder's output, unmodified)
        try:
            with horizon(hz(code)):
                m2 = to_line_mapping(code)
                back = from_line_mapping(m2)
                stats.transitions += 3
        except HorizonHit:
            stats.violation(case, "encode-no-termination", "from_line_mapping did not return")
            return
        except Exception as e:
            stats.violation(case, "encode-raises:" + type(e).__name__, "from_line_mapping raises %s for table %s" % (exc_summary(e), show(table)))
            return
        if back != table:
            stats.violation(
                case,
                "reencode-differs",
                "table %s re-encodes as %s (code %d bytes)" % (show(table), show(back), n),
            )
            return
        # shifting by the first line and back is the identity on the encoding
        try:
            m3 = to_line_mapping(code)
            m3.modify_line_offsets(code.co_firstlineno)
            m3.modify_line_offsets(-code.co_firstlineno)
            if from_line_mapping(m3) != table:
                stats.violation(case, "shift-not-inverse", "modify_line_offsets(+f) then (-f) changes the encoding of %s" % show(table))
                return
        except Exception as e:
            stats.violation(case, "shift-raises:" + type(e).__name__, exc_summary(e))
            return
        # the codec as CodeData drives it: a full from_code/to_code round trip of the
        # object carrying the table must reproduce the table too (trailing entries go
        # through _additional_line, extra entries through _line_offsets_override)
        if not synthetic or n <= 520:
            from code_data import CodeData

            try:
                with horizon(hz(code)):
                    c2 = CodeData.from_code(code).to_code()
                    stats.transitions += 2
            except HorizonHit:
                stats.violation(case, "codedata-roundtrip-no-termination", show(table))
                return
            except Exception as e:
                stats.violation(case, "codedata-roundtrip-raises:" + type(e).__name__, "table %s: %s" % (show(table), exc_summary(e)))
                return
            t2 = getattr(c2, LINE_ATTR)
            if t2 != table:
                raw = ref.raw_instructions(code.co_code)
                same = all(ref.addr2line(code, f) == ref.addr2line(c2, f) for f, nn, op, a in raw)
                from mon_code import entry_inside_instruction

                kind = "codedata-roundtrip-differs"
                if same and entry_inside_instruction(code, raw) and c2.co_code == code.co_code:
                    kind = "codedata-roundtrip:lnotab-entry-inside-instruction"
                stats.violation(case, kind, "from_code/to_code re-encodes table %s as %s" % (show(table), show(t2)))
                return
            stats.outcomes["codedata-roundtrip-ok"] += 1
        stats.outcomes["table-ok:" + ("model" if synthetic else "real")] += 1


def show(table):
    ps = [(table[i], table[i + 1] - 256 if table[i + 1] > 127 else table[i + 1]) for i in range(0, len(table), 2)]
    s = repr(ps)
    if len(s) > 300:
        s = s[:280] + "...(%d entries)" % len(ps)
    return s


def table_features(t):
    f = set()
    lim = 254 if LINETABLE else 255
    for i in range(0, len(t), 2):
        b, l = t[i], t[i + 1] - 256 if t[i + 1] > 127 else t[i + 1]
        if b == 0:
            f.add("zero-width")
        if b == lim:
            f.add("split-bytes")
        if LINETABLE and l == -128:
            f.add("no-line")
            if b == 254:
                f.add("no-line-long")
        elif l in (127, -127) or (not LINETABLE and l == -128):
            f.add("split-line")
        if l < 0 and not (LINETABLE and l == -128):
            f.add("backward")
        if not LINETABLE and l == 0 and b not in (0, 255):
            f.add("zero-delta-entry")
    return f


MONITORS = {"C10": C10}
