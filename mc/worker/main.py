# Worker entry point, run by each real interpreter.  Python 3.7 compatible.
#   python main.py --prop C01 --tier quick --shard 0/8 --seed 0 --out result.json
#   python main.py --prop C01 --replay replay.json
from __future__ import print_function

import argparse
import json
import os
import sys
import time
import traceback

sys.path.insert(0, os.path.dirname(os.path.abspath(__file__)))
sys.setrecursionlimit(20000)

import core  # noqa: E402
import ref  # noqa: E402


def registry():
    import mon_code

    reg = {}
    reg.update(mon_code.MONITORS)
    for modname in ("mon_norm", "mon_value", "mon_data", "mon_misc", "mon_json", "mon_hist", "mon_line", "mon_cli"):
        try:
            mod = __import__(modname)
        except ImportError as e:
            if modname in str(e):
                continue
            raise
        reg.update(mod.MONITORS)
    return reg


def main():
    ap = argparse.ArgumentParser()
    ap.add_argument("--prop", required=True)
    ap.add_argument("--tier", default="quick")
    ap.add_argument("--shard", default="0/1")
    ap.add_argument("--seed", type=int, default=0)
    ap.add_argument("--out")
    ap.add_argument("--replay")
    ap.add_argument("--count", action="store_true")
    ap.add_argument("--stage", type=int, default=1)
    ap.add_argument("--shared", default=None)
    a = ap.parse_args()

    mon = registry()[a.prop](a.tier)
    mon.stage = a.stage
    mon.shared = a.shared
    stats = core.Stats()
    t0 = time.time()
    if a.replay:
        rec = json.load(open(a.replay))
        try:
            mon.replay(rec["case"], stats)
        except ref.HarnessError as e:
            print("HARNESS: %s" % e)
            sys.exit(2)
        finally:
            if hasattr(mon, "finish"):
                mon.finish(stats)
        if stats.viol_total:
            for v in stats.violations:
                print("REPRODUCED property=%s kind=%s py=%s: %s" % (a.prop, v["kind"], v["py"], v["detail"]))
            sys.exit(1)
        h = rec.get("history")
        if h:
            # the case alone passes: the violation may depend on what the same process
            # did before (caches, module state).  Replay the shard's history up to and
            # including the case, in a fresh monitor.
            mon = registry()[a.prop](rec.get("tier", a.tier))
            mon.stage = h.get("stage", 1)
            mon.shared = a.shared
            stats = core.Stats()
            n = 0
            try:
                for idx, case in enumerate(mon.cases()):
                    if idx > h["idx"]:
                        break
                    if (idx + h["seed"]) % h["nshards"] != h["shard"]:
                        continue
                    n += 1
                    mon.check(case, stats)
            finally:
                if hasattr(mon, "finish"):
                    mon.finish(stats)
            same = [v for v in stats.violations if v["kind"] == rec.get("kind")]
            if same or stats.viol_kinds.get(rec.get("kind")):
                v = same[0] if same else {"kind": rec.get("kind"), "py": core.PYS, "detail": "(record beyond the cap)"}
                print("REPRODUCED-WITH-HISTORY property=%s kind=%s py=%s after replaying %d cases of the shard in one process: %s" % (a.prop, v["kind"], v["py"], n, v["detail"]))
                sys.exit(1)
        print("NOT-REPRODUCED property=%s (the case passes on this tree)" % a.prop)
        sys.exit(0)

    shard, nshards = [int(x) for x in a.shard.split("/")]
    if a.count:
        print(json.dumps({"predicted": mon.predicted()}))
        return
    n = 0
    try:
        for idx, case in enumerate(mon.cases()):
            n += 1
            if (idx + a.seed) % nshards != shard:
                continue
            stats.enumerated[case.get("s", "_")] += 1
            stats.where = (shard, nshards, a.seed, idx, a.stage)
            try:
                mon.check(case, stats)
            except ref.HarnessError as e:
                stats.extra.setdefault("harness_errors", []).append({"case": case, "error": str(e)})
                if len(stats.extra["harness_errors"]) > 20:
                    break
        stats.extra["total_cases_seen"] = n
        if shard == 0:
            stats.extra["predicted"] = mon.predicted()
        if hasattr(mon, "finish"):
            mon.finish(stats)
    except BaseException as e:  # harness failure: report, never pass silently
        stats.extra["fatal"] = traceback.format_exc()
    stats.extra["wall_s"] = time.time() - t0
    stats.dump(a.out)


if __name__ == "__main__":
    main()
