# C07 (JSON form strict, schema-valid, loss-free) and C15 (portable across versions).
# Python 3.7 compatible; consumers run on 3.11-3.13 too.
from __future__ import print_function

import json
import math
import os
import sys

import consts
import ref
import spaces
from core import PY, PYS, HorizonHit, Monitor, exc_summary, horizon
from strict import code_key, digest64, jkey, short, skey, walk_codes

from code_data import (
    JSON_SCHEMA,
    Args,
    Cellvar,
    CodeData,
    Constant,
    Freevar,
    Function,
    Instruction,
    Jump,
    Name,
    NoArg,
    Varname,
)

PRODUCER = (3, 7) <= PY <= (3, 10)
H = 60.0  # per-call horizon (seconds): generous, it only turns non-termination into an observation
try:
    import orjson
except ImportError:
    orjson = None


# ------------------------------------------------------------------- R-JSON: strictness
def strict_json_problem(v, path="$"):
    t = type(v)
    if t is dict:
        for k, x in v.items():
            if type(k) is not str:
                return "%s: key %r is %s, not str" % (path, k, type(k).__name__)
            r = strict_json_problem(x, "%s.%s" % (path, k))
            if r:
                return r
        return None
    if t is list:
        for i, x in enumerate(v):
            r = strict_json_problem(x, "%s[%d]" % (path, i))
            if r:
                return r
        return None
    if t is str or t is bool or v is None:
        return None
    if t is int:
        if abs(v) > 2 ** 53:
            return "%s: integer %s beyond 2^53 carried as a number" % (path, short(v, 40))
        return None
    if t is float:
        if v != v or v in (float("inf"), float("-inf")):
            return "%s: non-finite float %r" % (path, v)
        return None
    return "%s: %s is not a JSON type" % (path, t.__name__)


# ---------------------------------------------- independent mini validator (Draft 7 subset)
def _is_type(v, t):
    if t == "object":
        return type(v) is dict
    if t == "array":
        return type(v) is list
    if t == "string":
        return type(v) is str
    if t == "boolean":
        return type(v) is bool
    if t == "null":
        return v is None
    if t == "integer":
        return (type(v) is int) or (type(v) is float and v.is_integer())
    if t == "number":
        return type(v) in (int, float)
    raise ref.HarnessError("schema type %r not supported by the mini validator" % (t,))


KNOWN_KEYWORDS = {
    "$ref", "type", "properties", "required", "items", "anyOf", "enum", "default", "description", "title", "definitions",
    "pattern", "minLength", "maxLength", "minItems", "maxItems", "minimum", "maximum", "const", "oneOf", "allOf", "not",
    "additionalProperties", "$schema", "$id", "examples", "$comment",
}


def schema_problem(v, schema, root, path="$"):
    """None if v validates against schema (the keywords JSON_SCHEMA uses)."""
    for k in schema:
        if k not in KNOWN_KEYWORDS:
            raise ref.HarnessError("schema keyword %r not supported by the mini validator" % (k,))
    if "$ref" in schema:
        refp = schema["$ref"]
        if not refp.startswith("#/definitions/"):
            raise ref.HarnessError("unsupported $ref %r" % (refp,))
        return schema_problem(v, root["definitions"][refp[len("#/definitions/") :]], root, path)
    if "type" in schema:
        ts = schema["type"] if isinstance(schema["type"], list) else [schema["type"]]
        if not any(_is_type(v, t) for t in ts):
            return "%s: %s is not of type %s" % (path, short(v, 60), schema["type"])
    if "enum" in schema:
        if not any(jkey(v) == jkey(e) or (type(v) in (int, float) and type(e) in (int, float) and type(v) is not bool and v == e) for e in schema["enum"]):
            return "%s: %s not in enum %s" % (path, short(v, 60), schema["enum"])
    if "anyOf" in schema:
        if not any(schema_problem(v, s, root, path) is None for s in schema["anyOf"]):
            return "%s: %s matches none of anyOf" % (path, short(v, 80))
    if "oneOf" in schema:
        if sum(1 for s in schema["oneOf"] if schema_problem(v, s, root, path) is None) != 1:
            return "%s: %s does not match exactly one of oneOf" % (path, short(v, 80))
    if "allOf" in schema:
        for s in schema["allOf"]:
            p = schema_problem(v, s, root, path)
            if p:
                return p
    if "not" in schema and schema_problem(v, schema["not"], root, path) is None:
        return "%s: %s matches the schema under 'not'" % (path, short(v, 80))
    if "const" in schema and jkey(v) != jkey(schema["const"]):
        return "%s: %s is not the constant %s" % (path, short(v, 60), short(schema["const"], 60))
    if type(v) is str:
        import re

        if "pattern" in schema and re.search(schema["pattern"], v) is None:
            return "%s: %s does not match pattern %r" % (path, ascii(v)[:80], schema["pattern"])
        if "minLength" in schema and len(v) < schema["minLength"]:
            return "%s: string shorter than minLength" % path
        if "maxLength" in schema and len(v) > schema["maxLength"]:
            return "%s: string longer than maxLength" % path
    if type(v) in (int, float) and type(v) is not bool:
        if "minimum" in schema and v < schema["minimum"]:
            return "%s: %r below minimum" % (path, v)
        if "maximum" in schema and v > schema["maximum"]:
            return "%s: %r above maximum" % (path, v)
    if type(v) is list:
        if "minItems" in schema and len(v) < schema["minItems"]:
            return "%s: fewer items than minItems" % path
        if "maxItems" in schema and len(v) > schema["maxItems"]:
            return "%s: more items than maxItems" % path
    if type(v) is dict and "additionalProperties" in schema:
        extra = [k for k in v if k not in schema.get("properties", {})]
        ap = schema["additionalProperties"]
        for k in extra:
            if ap is False:
                return "%s: additional property %r not allowed" % (path, k)
            if isinstance(ap, dict):
                p = schema_problem(v[k], ap, root, "%s.%s" % (path, k))
                if p:
                    return p
    if type(v) is dict:
        for r in schema.get("required", []):
            if r not in v:
                return "%s: required property %r missing" % (path, r)
        for k, s in schema.get("properties", {}).items():
            if k in v:
                p = schema_problem(v[k], s, root, "%s.%s" % (path, k))
                if p:
                    return p
    if type(v) is list and "items" in schema:
        for i, x in enumerate(v):
            p = schema_problem(x, schema["items"], root, "%s[%d]" % (path, i))
            if p:
                return p
    return None


def canon(doc):
    """Canonical dump: sorted keys; the elements of every {"frozenset": [...]} list
    sorted by their own canonical dump (a frozenset is unordered)."""

    def c(v):
        if type(v) is dict:
            out = {}
            for k, x in v.items():
                if k == "frozenset" and type(x) is list and len(v) == 1:
                    out[k] = sorted([c(e) for e in x], key=lambda e: json.dumps(e, sort_keys=True))
                else:
                    out[k] = c(x)
            return out
        if type(v) is list:
            return [c(e) for e in v]
        return v

    return json.dumps(c(doc), sort_keys=True, ensure_ascii=True, allow_nan=False)


# --------------------------------------------------------------------- S-CONST positions
STRINGS = ["", "a", "\xe9", "\U0001F600", "\udc80", "a\ud800b", "\x00", "nan", "int", "frozenset", "string", "\\udc80", "'q'", "\udc80\U0001fae0\U0001fa70", "\ud83d\ude00", "x\ud83d\ude00\ud83d", "\udc80it's", "\udc80 'both' \"quotes\"", "\udc80\\'"]
STRING_POSITIONS = ["name", "local", "param", "cell", "free", "co_name", "co_filename", "docstring", "class-name", "nested-filename"]


def _code(src, path=()):
    c = compile(src, "<verif>", "exec", dont_inherit=True)
    for i in path:
        c = [k for k in c.co_consts if type(k) is type(c)][i]
    return c


def _swap(t, old, new):
    assert old in t, (t, old)
    return tuple(new if x == old and type(x) is type(old) else x for x in t)


def code_with_const(v, position):
    """A real code object holding constant v at the given position."""
    if position == "operand":
        c = _code("x = 12345\n")
        return ref.code_replace(c, co_consts=_swap(c.co_consts, 12345, v))
    if position == "additional":
        c = _code("x = 12345\n")
        return ref.code_replace(c, co_consts=c.co_consts + (v,))
    if position == "operand-in-function":
        c = _code("def f():\n    return 12345\n")
        f = [k for k in c.co_consts if type(k) is type(c)][0]
        f2 = ref.code_replace(f, co_consts=_swap(f.co_consts, 12345, v))
        return ref.code_replace(c, co_consts=_swap(c.co_consts, f, f2))
    raise KeyError(position)


def code_with_string(s, position):
    if position == "name":
        c = _code("xx = yy\n")
        return ref.code_replace(c, co_names=_swap(c.co_names, "xx", s))
    if position == "local":
        c = _code("def f(pp):\n    qq = pp\n    return qq\n", (0,))
        return ref.code_replace(c, co_varnames=_swap(c.co_varnames, "qq", s))
    if position == "param":
        c = _code("def f(pp):\n    qq = pp\n    return qq\n", (0,))
        return ref.code_replace(c, co_varnames=_swap(c.co_varnames, "pp", s))
    if position == "cell":
        c = _code("def f():\n    cc = 1\n    def g():\n        return cc\n    return g\n", (0,))
        return ref.code_replace(c, co_cellvars=_swap(c.co_cellvars, "cc", s))
    if position == "free":
        c = _code("def f():\n    cc = 1\n    def g():\n        return cc\n    return g\n", (0, 0))
        return ref.code_replace(c, co_freevars=_swap(c.co_freevars, "cc", s))
    if position == "co_name":
        c = _code("def f():\n    return 1\n", (0,))
        return ref.code_replace(c, co_name=s)
    if position == "co_filename":
        c = _code("x = 1\n")
        return ref.code_replace(c, co_filename=s)
    if position == "nested-filename":
        # the file name of a module and of the function nested in it
        c = _code("def f():\n    return 1\n")
        f = [k for k in c.co_consts if type(k) is type(c)][0]
        f2 = ref.code_replace(f, co_filename=s)
        return ref.code_replace(c, co_filename=s, co_consts=_swap(c.co_consts, f, f2))
    if position == "docstring":
        c = _code("def f():\n    'dd'\n    return 1\n", (0,))
        return ref.code_replace(c, co_consts=_swap(c.co_consts, "dd", s))
    if position == "class-name":
        c = _code("class K:\n    pass\n")
        return ref.code_replace(c, co_consts=_swap(c.co_consts, "K", s), co_names=_swap(c.co_names, "K", s))
    raise KeyError(position)


def handbuilt_with_const(v, position):
    """Hand-built CodeData (for hosts that cannot decode)."""
    ins = [Instruction("LOAD_CONST", Constant(v), line_number=1), Instruction("RETURN_VALUE", line_number=1)]
    add = ()
    if position == "additional":
        ins = [Instruction("LOAD_CONST", Constant(None), line_number=1), Instruction("RETURN_VALUE", line_number=1)]
        add = (Constant(v, 1),)
    return CodeData(blocks=(tuple(ins),), filename="<verif>", first_line_number=1, name="<module>", stacksize=1, _additional_args=add)


def handbuilt_with_string(s, position):
    kw = dict(filename="<verif>", first_line_number=1, name="f", stacksize=1)
    ins = [Instruction("LOAD_CONST", Constant(None), line_number=1), Instruction("RETURN_VALUE", line_number=1)]
    if position == "name":
        ins.insert(0, Instruction("LOAD_NAME", Name(s), line_number=1))
    elif position == "local":
        kw["type"] = Function(Args())
        ins.insert(0, Instruction("LOAD_FAST", Varname(s), line_number=1))
    elif position == "param":
        kw["type"] = Function(Args(positional_or_keyword=(s,), var_positional=s + "1", keyword_only=(s + "2",), var_keyword=s + "3"))
    elif position == "cell":
        kw["type"] = Function(Args())
        ins.insert(0, Instruction("LOAD_CLOSURE", Cellvar(s), line_number=1))
    elif position == "free":
        kw["type"] = Function(Args())
        kw["freevars"] = (s,)
        ins.insert(0, Instruction("LOAD_DEREF", Freevar(s), line_number=1))
    elif position == "co_name":
        kw["name"] = s
    elif position == "co_filename":
        kw["filename"] = s
    elif position == "docstring":
        kw["type"] = Function(Args(), docstring=s)
    elif position == "nested-filename":
        inner = CodeData(blocks=(tuple(ins),), filename=s, first_line_number=1, name="g", stacksize=1, type=Function(Args()))
        kw["filename"] = s
        ins = [Instruction("LOAD_CONST", Constant(inner), line_number=1), Instruction("RETURN_VALUE", line_number=1)]
    elif position == "class-name":
        ins.insert(0, Instruction("STORE_NAME", Name(s, 0), line_number=1))
    return CodeData(blocks=(tuple(ins),), **kw)


def synthetic_schema_cases():
    """CodeData exercising every schema definition: non-zero NoArg, _n_args_override,
    _line_offsets_override, AdditionalLine, cell/free operands, every function type,
    relative and absolute jumps."""
    out = []
    for ftype in (None, "GENERATOR", "COROUTINE", "ASYNC_GENERATOR"):
        out.append(
            CodeData(
                blocks=(
                    (
                        Instruction("NOP", NoArg(3), line_number=1),
                        Instruction("JUMP_FORWARD", Jump(1, True), _n_args_override=2, line_number=2, _line_offsets_override=(1, 0)),
                    ),
                    (
                        Instruction("LOAD_CLOSURE", Cellvar("c", 0), line_number=3),
                        Instruction("LOAD_DEREF", Freevar("f"), line_number=3),
                        Instruction("LOAD_FAST", Varname("a"), line_number=4),
                        Instruction("CALL_FUNCTION", 2, line_number=4),
                        Instruction("JUMP_ABSOLUTE", Jump(0), line_number=5),
                    ),
                ),
                filename="fn.py",
                first_line_number=1,
                name="nm",
                stacksize=3,
                type=Function(Args(("p",), ("a",), "va", ("k",), "kw"), "doc", ftype),
                freevars=("f",),
                future_annotations=True,
                _nested=True,
                _additional_line=AdditionalLineOrNone(),
                _additional_args=(Name("unused", 0), Varname("lv", 7), Cellvar("cv", 1), Constant((1, 2.5), 3)),
            )
        )
    return out


def AdditionalLineOrNone():
    from code_data import AdditionalLine

    return AdditionalLine(9, (1, 2))


# ------------------------------------------------------------------------------- C07
class C07(Monitor):
    prop = "C07"
    interpreters = ("3.7", "3.8", "3.9", "3.10", "3.11")

    def __init__(self, tier):
        Monitor.__init__(self, tier)
        self.seen = set()
        self.dumped = 0
        self.shared = None

    def const_positions(self):
        return ["operand", "additional", "operand-in-function"] if PRODUCER else ["operand", "additional"]

    def cases(self):
        n = consts.size(self.tier)
        for i in range(n):
            for pos in self.const_positions():
                yield {"k": "const", "s": "KP", "i": i, "pos": pos}
        for i, s in enumerate(STRINGS):
            for pos in STRING_POSITIONS:
                yield {"k": "string", "s": "SP", "i": i, "pos": pos}
        for i in range(4):
            yield {"k": "synthetic", "s": "SY", "i": i}
        if PRODUCER:
            for name, gen, cnt in self.prog_strata():
                for c in gen():
                    yield c

    def prog_strata(self):
        from mon_code import progs_strata

        if self.tier == "quick":
            S = spaces
            return [
                ("Pa", lambda: S.with_modes(S.prog_Pa()), S.n_prog_Pa()),
            ]
        # thorough: every stratum of the grammar and the families, without the stdlib
        # corpus and the triple/depth-3 strata (their documents add volume, not shapes)
        st = [x for x in progs_strata(self.tier, False, None) if x[0] not in ("C", "Pd2", "Pd3", "Pdn", "F")]
        # the quick tier's boundary families (the thorough ones add hundreds of programs
        # of thousands of statements: volume for the JSON codec, not shapes)
        S = spaces
        st.append(("F", lambda: S.feat_cases("quick"), S.n_feat_cases("quick")))
        return st

    def predicted(self):
        n = consts.size(self.tier) * len(self.const_positions()) + len(STRINGS) * len(STRING_POSITIONS) + 4
        if PRODUCER:
            for name, gen, cnt in self.prog_strata():
                n += cnt if cnt is not None else sum(1 for _ in gen())
        return n

    def check(self, case, stats):
        k = case["k"]
        if k == "const":
            rec, v = consts.build(self.tier)[case["i"]]
            stats.sample("KP", {"recipe": rec, "value": short(v, 60), "position": case["pos"]}, per=2)
            self.values_for(case, stats, v, case["pos"], code_with_const, handbuilt_with_const)
        elif k == "string":
            s = STRINGS[case["i"]]
            stats.sample("SP", {"string": ascii(s), "position": case["pos"]}, per=2)
            self.values_for(case, stats, s, case["pos"], code_with_string, handbuilt_with_string)
        elif k == "synthetic":
            x = synthetic_schema_cases()[case["i"]]
            stats.sample("SY", {"synthetic": short(x, 200)}, per=1)
            stats.evaluations += 1
            stats.nontriv(("syn", case["i"]))
            self.judge(case, x, stats, can_encode=False)
        else:
            try:
                root = spaces.build_code(case)
            except (SyntaxError, ValueError, RecursionError, MemoryError, OverflowError) as e:
                stats.skipped["not-compilable:" + type(e).__name__] += 1
                return
            stats.sample(case["s"], case, per=1)
            # the root's document contains every nested document; judge the root and
            # each nested object once (a nested failure is then reported minimally)
            # quick: the root only (its document contains every nested document);
            # thorough: every nested object on its own as well
            for path, code in (walk_codes(root) if self.tier == "thorough" else [((), root)]):
                key = digest64(code_key(code))
                if key in self.seen:
                    continue
                self.seen.add(key)
                stats.evaluations += 1
                sub = dict(case, cpath=list(path))
                try:
                    with horizon(H):
                        d = CodeData.from_code(code)
                except Exception as e:
                    stats.skipped["from_code-raises"] += 1
                    continue
                stats.nontriv(code_key(code))
                if self.judge(sub, d, stats):
                    self.judge(dict(sub, normalized=True), d.normalize(), stats)

    def replay(self, case, stats):
        if case["k"] in ("const", "string", "synthetic"):
            return self.check(case, stats)
        root = spaces.build_code(case)
        code = root
        for i in case.get("cpath", []):
            code = code.co_consts[i]
        d = CodeData.from_code(code)
        if case.get("normalized"):
            d = d.normalize()
        self.judge(case, d, stats)

    def values_for(self, case, stats, v, pos, by_code, by_hand):
        stats.evaluations += 1
        stats.nontriv((case["k"], case["i"], pos))
        if PRODUCER:
            try:
                code = by_code(v, pos)
            except Exception as e:
                raise ref.HarnessError("cannot build code for %s at %s: %r" % (short(v), pos, e))
            try:
                with horizon(H):
                    d = CodeData.from_code(code)
            except Exception as e:
                stats.violation(case, "from_code-raises:" + type(e).__name__, "value %s at %s: %s" % (short(v, 60), pos, exc_summary(e)))
                return
            if self.judge(case, d, stats, code=code):
                self.judge(dict(case, normalized=True), d.normalize(), stats)
        x = by_hand(v, pos)
        self.judge(dict(case, handbuilt=True), x, stats, can_encode=False)

    def judge(self, case, x, stats, code=None, can_encode=True):
        """All of C07's obligations for one CodeData value.  True if they hold."""
        try:
            with horizon(H):
                doc = x.to_json_data()
        except HorizonHit:
            stats.violation(case, "to_json-no-termination", "")
            return False
        except Exception as e:
            stats.violation(case, "to_json-raises:" + type(e).__name__, exc_summary(e))
            return False
        p = strict_json_problem(doc)
        if p:
            stats.violation(case, "not-plain-json", p)
            return False
        p = schema_problem(doc, JSON_SCHEMA, JSON_SCHEMA)
        self.maybe_dump(doc, p is None, stats)
        if p:
            stats.violation(case, "schema-invalid", p)
            return False
        cycles = [("json", lambda d: json.loads(json.dumps(d, allow_nan=False)))]
        if self.tier == "thorough" or case["k"] in ("const", "string", "synthetic"):
            cycles.append(("json-utf8", lambda d: json.loads(json.dumps(d, allow_nan=False, ensure_ascii=False).encode("utf-8").decode("utf-8"))))
        if orjson is not None:
            cycles.append(("orjson", lambda d: orjson.loads(orjson.dumps(d))))
        want = skey(x, True)
        for cname, cyc in cycles:
            try:
                doc2 = cyc(doc)
            except Exception as e:
                stats.violation(case, "serialize-fails:" + cname, "%s: %s" % (type(e).__name__, short(str(e), 200)))
                return False
            before = jkey(doc2)
            try:
                with horizon(H):
                    y = CodeData.from_json_data(doc2)
            except HorizonHit:
                stats.violation(case, "from_json-no-termination", "")
                return False
            except Exception as e:
                stats.violation(case, "from_json-raises:" + type(e).__name__, "%s cycle: %s" % (cname, exc_summary(e)))
                return False
            if skey(y, True) != want:
                stats.violation(case, "json-roundtrip-differs", "%s cycle: loaded value differs: %s" % (cname, first_diff(x, y)))
                return False
            try:
                if not (y == x):
                    stats.violation(case, "json-roundtrip-not-equal", "%s cycle: loaded value is not == to the original" % cname)
                    return False
                hash(y)
            except Exception as e:
                stats.violation(case, "loaded-unhashable:" + type(e).__name__, exc_summary(e))
                return False
            stats.outcomes["cycle-ok:" + cname] += 1
        if PRODUCER and can_encode:
            try:
                with horizon(H):
                    c1 = x.to_code()
                    c2 = y.to_code()
            except Exception as e:
                stats.outcomes["to_code-raises"] += 1
                return True
            if code_key(c1, True) != code_key(c2, True):
                stats.violation(case, "loaded-encodes-differently", "to_code() of the loaded value differs from to_code() of the original")
                return False
            stats.outcomes["encodes-identically"] += 1
        return True

    def maybe_dump(self, doc, verdict, stats):
        """A deterministic subset of documents is handed to the driver, which validates
        them with jsonschema.Draft7Validator (a validator the repo does not use) and
        requires agreement with the mini validator."""
        if self.shared is None or self.dumped >= 400:
            return
        n = stats.evaluations
        if n % 7 and self.dumped > 60:
            return
        self.dumped += 1
        try:
            line = json.dumps({"py": PYS, "valid": verdict, "doc": doc}, allow_nan=False)
        except Exception:
            return
        with open(os.path.join(self.shared, "c07docs_%s_%d.jsonl" % (PYS, os.getpid())), "a") as f:
            f.write(line + "\n")


def first_diff(x, y, path="x"):
    import dataclasses

    if type(x) is not type(y):
        return "%s: %s vs %s" % (path, short(x, 60), short(y, 60))
    if dataclasses.is_dataclass(x):
        for f in dataclasses.fields(x):
            r = first_diff(getattr(x, f.name), getattr(y, f.name), path + "." + f.name)
            if r:
                return r
        return None
    if type(x) is tuple:
        if len(x) != len(y):
            return "%s: length %d vs %d" % (path, len(x), len(y))
        for i, (a, b) in enumerate(zip(x, y)):
            r = first_diff(a, b, "%s[%d]" % (path, i))
            if r:
                return r
        return None
    if skey(x, True) != skey(y, True):
        return "%s: %s vs %s" % (path, short(x, 60), short(y, 60))
    return None


# ------------------------------------------------------------------------------- C15
class C15(Monitor):
    prop = "C15"
    interpreters = ("3.7", "3.8", "3.9", "3.10", "3.11", "3.12", "3.13")
    stages = 2

    def __init__(self, tier):
        Monitor.__init__(self, tier)
        self.shared = None
        self.stage = 1
        self._files = None

    def nprog(self):
        return 6000 if self.tier == "quick" else 16000

    def programs(self):
        out = list(spaces.with_modes(spaces.prog_Pa()))
        return spaces.spread(out, self.nprog())

    def cases(self):
        if self.stage == 1:
            if not PRODUCER:
                return
            n = consts.size(self.tier)
            for i in range(n):
                for pos in ("operand", "additional"):
                    yield {"k": "const", "s": "KP", "i": i, "pos": pos}
            for i, s in enumerate(STRINGS):
                for pos in STRING_POSITIONS:
                    yield {"k": "string", "s": "SP", "i": i, "pos": pos}
            for i, c in enumerate(self.programs()):
                yield dict(c, s="PR", pi=i)
            # unreachable multi-line code after `return`: <=3.9 documents with trailing
            # line entries and extra offsets
            for i, c in enumerate(spaces.line_dead_cases(self.tier)):
                yield dict(c, s="PX", pi=i)
        else:
            for v in ("3.7", "3.8", "3.9", "3.10"):
                for sh in range(self.producer_shards):
                    yield {"k": "consume", "s": "CO", "producer": v, "shard": sh}

    producer_shards = 1

    def predicted(self):
        if self.stage == 1:
            if not PRODUCER:
                return 0
            return consts.size(self.tier) * 2 + len(STRINGS) * len(STRING_POSITIONS) + self.nprog() + spaces.n_line_dead_cases(self.tier)
        return 4 * self.producer_shards

    def check(self, case, stats):
        if self.stage == 1:
            self.produce(case, stats)
        else:
            self.consume(case, stats)

    def replay(self, case, stats):
        raise ref.HarnessError("C15 violations are replayed by re-running the check (two interpreters are involved); the record names producer, consumer and document id")

    def produce(self, case, stats):
        k = case["k"]
        try:
            if k == "const":
                code = code_with_const(consts.build(self.tier)[case["i"]][1], case["pos"])
            elif k == "string":
                code = code_with_string(STRINGS[case["i"]], case["pos"])
            else:
                code = spaces.build_code(case)
        except SyntaxError:
            stats.skipped["not-compilable"] += 1
            return
        try:
            d = CodeData.from_code(code)
            doc = d.to_json_data()
            ndoc = d.normalize().to_json_data()
            line = json.dumps({"id": json.dumps(case, sort_keys=True), "doc": doc, "ndoc": ndoc}, allow_nan=False)
        except Exception as e:
            stats.skipped["producer-side-failure(C07)"] += 1
            return
        stats.evaluations += 1
        with open(os.path.join(self.shared, "c15_%s_%d.jsonl" % (PYS, os.getpid())), "a") as f:
            f.write(line + "\n")

    def consume(self, case, stats):
        files = sorted(fn for fn in os.listdir(self.shared) if fn.startswith("c15_%s_" % case["producer"]))
        if not files:
            stats.skipped["producer-missing:" + case["producer"]] += 1
            return
        n = 0
        for fn in files:
            with open(os.path.join(self.shared, fn)) as f:
                for line in f:
                    rec = json.loads(line)
                    n += 1
                    stats.evaluations += 1
                    sub = {"k": "xver", "s": "CO", "producer": case["producer"], "consumer": PYS, "id": rec["id"]}
                    stats.nontriv((case["producer"], PYS, rec["id"]))
                    want = canon(rec["doc"])
                    try:
                        with horizon(H):
                            d = CodeData.from_json_data(rec["doc"])
                            back = d.to_json_data()
                            nback = d.normalize().to_json_data()
                    except HorizonHit:
                        stats.violation(sub, "consumer-no-termination", "")
                        continue
                    except Exception as e:
                        stats.violation(sub, "consumer-raises:" + type(e).__name__, "document written under %s does not load under %s: %s" % (case["producer"], PYS, exc_summary(e)))
                        continue
                    try:
                        got = canon(back)
                        ngot = canon(nback)
                    except Exception as e:
                        stats.violation(sub, "consumer-output-not-json:" + type(e).__name__, exc_summary(e))
                        continue
                    if got != want:
                        stats.violation(sub, "reserialized-differs", "document written under %s re-serializes differently under %s: %s" % (case["producer"], PYS, text_diff(want, got)))
                        continue
                    if ngot != canon(rec["ndoc"]):
                        stats.violation(sub, "normalize-differs", "normalize under %s differs from the producer's (%s): %s" % (PYS, case["producer"], text_diff(canon(rec["ndoc"]), ngot)))
                        continue
                    stats.outcomes["portable:%s->%s" % (case["producer"], PYS)] += 1
        stats.sample("CO", {"producer": case["producer"], "consumer": PYS, "documents": n}, per=4)


def text_diff(a, b):
    i = 0
    while i < min(len(a), len(b)) and a[i] == b[i]:
        i += 1
    return "...%s | ...%s" % (a[max(0, i - 40) : i + 60], b[max(0, i - 40) : i + 60])


MONITORS = {"C07": C07, "C15": C15}
