# Monitors whose initial states are compiled code objects: C01, C02, C13, C14.
# Python 3.7 compatible.
from __future__ import print_function

import collections
import dis
import itertools
import os
import sys

import ref
import spaces
from core import PY, PYS, HorizonHit, Monitor, exc_summary, horizon
from strict import LINE_ATTR, code_diff, code_key, digest64, short, skey, walk_codes

from code_data import (
    Cellvar,
    CodeData,
    Constant,
    Freevar,
    Instruction,
    Jump,
    Name,
    NoArg,
    Varname,
)

H = 60.0  # per-call horizon (seconds): generous, it only turns non-termination into an observation
H_BIG = 900.0


def flat(d):
    return [i for b in d.blocks for i in b]


def is_big(code):
    return len(code.co_code) > 20000 or len(code.co_consts) > 5000 or len(code.co_names) > 5000 or len(code.co_varnames) > 5000


def hz(code):
    """Per-call horizon for work on this code object (generous for the huge ones: the
    horizon exists to turn non-termination into an observation, not to time calls)."""
    return H_BIG if is_big(code) else H


def reach_of(code, raw, sym, stats):
    """Driver-reach table, from CPython's view only."""
    r = stats.reach
    used = collections.defaultdict(set)
    for (first, n, op, arg), (name, kind, val) in zip(raw, sym):
        r["operand:%s:%d" % (kind, n)] += 1
        if kind in ("const", "name", "local"):
            used[kind].add(arg)
        elif kind in ("cell",):
            used["cell"].add(arg)
    fl = code.co_flags
    if fl & 0x3 == 0x3:
        r["fn"] += 1
        if fl & ref.CO_GENERATOR:
            r["fn:GENERATOR"] += 1
        if fl & ref.CO_COROUTINE:
            r["fn:COROUTINE"] += 1
        if fl & ref.CO_ASYNC_GENERATOR:
            r["fn:ASYNC_GENERATOR"] += 1
        if code.co_consts and type(code.co_consts[0]) is str:
            r["fn:docstring"] += 1
    else:
        r["nonfn"] += 1
    if len(used["const"]) < len(code.co_consts):
        r["unref:const"] += 1
    if len(used["name"]) < len(code.co_names):
        r["unref:name"] += 1
    if len(used["cell"]) < len(code.co_cellvars):
        r["unref:cell"] += 1
    if code.co_cellvars and code.co_freevars:
        r["cells+frees"] += 1
    ks = [ref.constant_class(k) for k in code.co_consts if type(k) is not type(code)]
    try:
        if len(set(ks)) < len(ks):
            r["dup-consts"] += 1
    except TypeError:
        pass
    if any(type(k) is type(code) for k in code.co_consts):
        r["nested-code"] += 1
    lt = getattr(code, LINE_ATTR)
    if PY >= (3, 10):
        for i in range(0, len(lt), 2):
            if lt[i + 1] == 128:
                r["line:noline"] += 1
                break
        if any(lt[i] == 0 for i in range(0, len(lt), 2)):
            r["line:zero-width"] += 1
        if any(lt[i] == 254 for i in range(0, len(lt), 2)):
            r["line:split-bytes"] += 1
    else:
        if any(lt[i] == 255 for i in range(0, len(lt), 2)):
            r["line:split-bytes"] += 1
        if any(lt[i] == 0 for i in range(0, len(lt), 2)):
            r["line:zero-width"] += 1
        if sum(lt[i] for i in range(0, len(lt), 2)) >= len(code.co_code):
            r["line:trailing"] += 1
    if any(lt[i + 1] in (127, 128 if PY < (3, 10) else 129) for i in range(0, len(lt), 2)):
        r["line:split-lines"] += 1
    if any(lt[i + 1] >= 128 for i in range(0, len(lt), 2)):
        r["line:backward"] += 1


def progs_strata(tier, corpus_quick=False, want=None):
    """Strata shared by the code-object monitors: (name, generator, predicted count)."""
    S = spaces
    st = []
    st.append(("Pa", lambda: S.with_modes(S.prog_Pa(), optimize=(0, 1, 2)), S.n_prog_Pa() * 3))
    st.append(("Pb", lambda: S.with_modes(S.prog_Pb()), S.n_prog_Pb()))
    st.append(("Pc", lambda: S.with_modes(S.prog_Pc()), S.n_prog_Pc()))
    st.append(("Q", S.prog_Q, S.n_prog_Q()))
    st.append(("Pe", S.prog_eval, S.n_prog_eval()))
    st.append(("Ps", S.prog_single, S.n_prog_single()))
    st.append(("F", lambda: S.feat_cases(tier), S.n_feat_cases(tier)))
    st.append(("L", lambda: S.line_text_cases(tier), S.n_line_text_cases(tier)))
    st.append(("Ld", lambda: S.line_text_def_cases(tier), S.n_line_text_def_cases(tier)))
    st.append(("Lx", lambda: S.line_dead_cases(tier), S.n_line_dead_cases(tier)))
    st.append(("R", S.repo_corpus_cases, None))
    if tier == "thorough":
        st.append(("Pd2", lambda: S.with_modes(S.prog_Pd_expr2()), S.n_prog_Pd_expr2()))
        st.append(("Pd3", lambda: S.with_modes(S.prog_Pd_triples()), S.n_prog_Pd_triples()))
        st.append(("Pdn", lambda: S.with_modes(S.prog_Pd_nest3()), S.n_prog_Pd_nest3()))
    if tier == "thorough" or corpus_quick:
        st.append(("C", S.corpus_cases, None))
    if want is not None:
        st = [x for x in st if x[0] in want]
    dev = os.environ.get("VERIF_STRATA")  # development aid only
    if dev:
        st = [x for x in st if x[0] in dev.split(",")]
    return st


class CodeMonitor(Monitor):
    """Base: enumerate programs, compile on the running interpreter, visit every
    nested code object once (deduplicated by strict key)."""

    corpus_quick = False
    want = None

    def __init__(self, tier):
        Monitor.__init__(self, tier)
        self._strata = progs_strata(tier, self.corpus_quick, self.want)
        self.seen = set()

    def cases(self):
        for name, gen, n in self._strata:
            for c in gen():
                yield c

    def predicted(self):
        tot = 0
        for name, gen, n in self._strata:
            if n is None:
                n = sum(1 for _ in gen())
            tot += n
        return tot

    def check(self, case, stats):
        try:
            root = spaces.build_code(case)
        except (SyntaxError, ValueError, RecursionError, MemoryError, OverflowError) as e:
            stats.skipped["not-compilable:" + type(e).__name__] += 1
            return
        if case["s"] != "C":
            stats.sample(case["s"], case, per=1)
        for path, code in walk_codes(root):
            k = digest64(code_key(code))
            if k in self.seen:
                stats.reach["duplicate-code-object"] += 1
                continue
            self.seen.add(k)
            stats.evaluations += 1
            sub = dict(case)
            sub["cpath"] = list(path)
            self.check_code(sub, code, stats)

    def replay(self, case, stats):
        root = spaces.build_code(case)
        code = root
        for i in case.get("cpath", []):
            code = code.co_consts[i]
        self.check_code(case, code, stats)

    def decode(self, case, code, stats):
        """from_code under the horizon; records a violation and returns None when it
        does not return a value."""
        try:
            with horizon(hz(code)):
                return CodeData.from_code(code)
        except HorizonHit:
            stats.horizon_hits += 1
            stats.violation(case, "from_code-no-termination", "from_code did not return within the horizon")
        except Exception as e:
            stats.violation(case, "from_code-raises:" + type(e).__name__, exc_summary(e))
        return None

    def encode(self, case, d, stats, what="to_code", big=False):
        try:
            with horizon(H_BIG if big else H):
                return d.to_code()
        except HorizonHit:
            stats.horizon_hits += 1
            stats.violation(case, what + "-no-termination", what + " did not return within the horizon")
        except Exception as e:
            stats.violation(case, what + "-raises:" + type(e).__name__, exc_summary(e))
        return None

    def oracle(self, code, stats):
        raw = ref.raw_instructions(code.co_code)
        sym = ref.resolve(code, raw)
        ref.dis_selfcheck(code, raw, sym)
        ref.lines_selfcheck(code, raw)
        reach_of(code, raw, sym, stats)
        return raw, sym


def entry_inside_instruction(code, raw):
    """True if the <=3.9 lnotab has an entry boundary strictly inside a multi-unit
    instruction (after its EXTENDED_ARG prefix)."""
    if PY >= (3, 10):
        return False
    lt = code.co_lnotab
    inner = set()
    for first, n, op, arg in raw:
        for j in range(1, n):
            inner.add(first + 2 * j)
    off = 0
    for i in range(0, len(lt), 2):
        off += lt[i]
        if off in inner:
            return True
    return False


class C01(CodeMonitor):
    prop = "C01"
    corpus_quick = True

    def check_code(self, case, code, stats):
        raw, sym = self.oracle(code, stats)
        stats.nontriv(code_key(code))
        d = self.decode(case, code, stats)
        if d is None:
            return
        c2 = self.encode(case, d, stats, big=is_big(code))
        if c2 is None:
            return
        if code_key(c2) == code_key(code):
            stats.outcomes["identical"] += 1
            return
        diff = code_diff(code, c2)
        attrs = sorted(set(x.split(":")[0].split("(")[0].rsplit(".", 1)[-1] for x in diff))
        kind = "differs:" + ",".join(attrs)
        more = {}
        if attrs == [LINE_ATTR]:
            # does CPython read the same line for every instruction from both tables?
            same = all(ref.addr2line(code, f) == ref.addr2line(c2, f) for f, n, op, a in raw)
            top_only = all(not x.startswith("consts[") for x in diff)
            if same and top_only and entry_inside_instruction(code, raw):
                kind = "differs:lnotab-entry-inside-instruction"
            more["lines_agree_per_instruction"] = same
        stats.violation(case, kind, "to_code(from_code(c)) differs from c: " + "; ".join(diff[:6]), **more)


def arg_matches(arg, kind, val, consts_decoder):
    """Does the library's operand say what CPython's reading (kind, val) says?"""
    if kind == "none":
        return type(arg) is NoArg
    if kind == "raw":
        return type(arg) is int and arg == val
    if kind == "name":
        return type(arg) is Name and type(arg.name) is str and arg.name == val
    if kind == "local":
        return type(arg) is Varname and type(arg.varname) is str and arg.varname == val
    if kind == "cell":
        return type(arg) is Cellvar and arg.cellvar == val
    if kind == "free":
        return type(arg) is Freevar and arg.freevar == val
    if kind == "const":
        if type(arg) is not Constant:
            return False
        return consts_decoder(arg.constant) == val
    return None  # jumps handled by caller


class C02(CodeMonitor):
    prop = "C02"

    def check_code(self, case, code, stats):
        raw, sym = self.oracle(code, stats)
        d = self.decode(case, code, stats)
        if d is None:
            return
        ins = flat(d)
        stats.nontriv(code_key(code))
        if len(ins) != len(sym):
            stats.violation(
                case,
                "instruction-count",
                "library decodes %d instructions, CPython reads %d" % (len(ins), len(sym)),
            )
            return
        starts = []
        n = 0
        for b in d.blocks:
            starts.append(n)
            n += len(b)
        nested_memo = {}

        def ckey_of(v):
            # key of a library constant in the oracle's terms
            if isinstance(v, CodeData):
                return ("D:CodeData", skey(v))
            return skey(v)

        def oracle_key(idx):
            # oracle's key of the constant designated by CPython
            first, nu, op, arg = raw[idx]
            k = code.co_consts[arg]
            if type(k) is type(code):
                if arg not in nested_memo:
                    nested_memo[arg] = ("D:CodeData", skey(CodeData.from_code(k)))
                return nested_memo[arg]
            return skey(k)

        for idx, (i, (name, kind, val), (first, nu, op, arg)) in enumerate(zip(ins, sym, raw)):
            if type(i) is not Instruction or i.name != name:
                stats.violation(case, "opname", "instruction %d: library %s, CPython %s" % (idx, short(getattr(i, "name", i)), name))
                return
            a = i.arg
            if kind in ("jabs", "jrel"):
                ok = (
                    type(a) is Jump
                    and type(a.target) is int
                    and type(a.relative) is bool
                    and a.relative == (kind == "jrel")
                    and 0 <= a.target < len(starts)
                    and starts[a.target] == val
                )
                if not ok:
                    stats.violation(
                        case,
                        "jump",
                        "instruction %d %s: library %s (block starts %s), CPython jumps to instruction %s (%s)"
                        % (idx, name, short(a), short(starts, 60), val, kind),
                    )
                    return
                stats.outcomes["jump-ok"] += 1
            elif kind == "const":
                if type(a) is not Constant or ckey_of(a.constant) != oracle_key(idx):
                    stats.violation(
                        case,
                        "operand:const",
                        "instruction %d %s: library %s, CPython %s" % (idx, name, short(a), short(code.co_consts[arg])),
                    )
                    return
            else:
                if not arg_matches(a, kind, val, None):
                    stats.violation(
                        case,
                        "operand:" + kind,
                        "instruction %d %s: library %s, CPython (%s, %s)" % (idx, name, short(a), kind, short(val)),
                    )
                    return
            want = ref.addr2line(code, first)
            if i.line_number != want or (want is not None and type(i.line_number) is not int):
                stats.violation(
                    case,
                    "line",
                    "instruction %d %s at offset %d: library line %r, CPython line %r" % (idx, name, first, i.line_number, want),
                )
                return
        stats.outcomes["stream-ok"] += 1


class C13(CodeMonitor):
    prop = "C13"

    def check_code(self, case, code, stats):
        raw, sym = self.oracle(code, stats)
        d = self.decode(case, code, stats)
        if d is None:
            return
        targets = set([0])
        for name, kind, val in sym:
            if kind in ("jabs", "jrel"):
                if not isinstance(val, int):
                    raise ref.HarnessError("compiled code jumps into the middle of an instruction")
                targets.add(val)
        if len(targets) > 1:
            stats.nontriv(code_key(code))
        blocks = d.blocks
        if type(blocks) is not tuple or any(type(b) is not tuple for b in blocks):
            stats.violation(case, "blocks-type", "blocks is not a tuple of tuples")
            return
        if any(len(b) == 0 for b in blocks):
            stats.violation(case, "empty-block", "a block is empty")
            return
        ins = flat(d)
        if [i.name for i in ins] != [s[0] for s in sym]:
            stats.violation(case, "not-a-partition", "concatenated blocks are not CPython's instruction sequence in order")
            return
        starts = set()
        n = 0
        for b in blocks:
            starts.add(n)
            n += len(b)
        if starts != targets:
            extra = sorted(starts - targets)
            missing = sorted(targets - starts)
            stats.violation(
                case,
                "block-starts",
                "block starts != {0} U jump targets: extra starts %s, missing starts %s" % (extra[:5], missing[:5]),
            )
            return
        targeted = set()
        for i in ins:
            if type(i.arg) is Jump:
                if not (type(i.arg.target) is int and 0 <= i.arg.target < len(blocks)):
                    stats.violation(case, "jump-target-range", "Jump.target %r does not designate a block (%d blocks)" % (i.arg.target, len(blocks)))
                    return
                targeted.add(i.arg.target)
        untargeted = [b for b in range(1, len(blocks)) if b not in targeted]
        if untargeted:
            stats.violation(case, "untargeted-block", "blocks %s are the target of no jump" % untargeted[:5])
            return
        stats.outcomes["partition-ok:%s" % ("multi" if len(blocks) > 1 else "single")] += 1


class C14(CodeMonitor):
    prop = "C14"

    def decoded_key(self, code):
        """Strict key of what decoding this code object on its own gives (memoized by
        the code object's strict key; decoding is deterministic per C12)."""
        memo = self.__dict__.setdefault("_kmemo", {})
        k = digest64(code_key(code))
        if k not in memo:
            if len(memo) > 200000:
                memo.clear()
            memo[k] = hash(skey(CodeData.from_code(code)))
        return memo[k]

    def check_code(self, case, code, stats):
        nested = [k for k in code.co_consts if type(k) is type(code)]
        raw, sym = self.oracle(code, stats)
        d = self.decode(case, code, stats)
        if d is None:
            return
        if nested:
            stats.nontriv(code_key(code))
        # which nested code objects are referenced by how many instructions?
        refs = collections.Counter()
        for (first, n, op, arg), (name, kind, val) in zip(raw, sym):
            if kind == "const" and type(code.co_consts[arg]) is type(code):
                refs[arg] += 1
        idxs = [i for i, k in enumerate(code.co_consts) if type(k) is type(code)]
        if any(refs[i] == 0 for i in idxs):
            stats.reach["nested-unreferenced"] += 1
        if any(refs[i] > 1 for i in idxs):
            stats.reach["nested-referenced-twice"] += 1
        try:
            with horizon(hz(code)):
                direct = list(iter(d))
                every = list(d.all_code_data())
        except HorizonHit:
            stats.violation(case, "iteration-no-termination", "iteration did not finish within the horizon")
            return
        except Exception as e:
            stats.violation(case, "iteration-raises:" + type(e).__name__, exc_summary(e))
            return
        if not every or every[0] is not d:
            stats.violation(case, "self-not-first", "all_code_data() does not start with the object itself")
            return
        if any(not isinstance(x, CodeData) for x in direct + every):
            stats.violation(case, "yields-non-codedata", "iteration yields something that is not CodeData")
            return
        want_direct = collections.Counter(self.decoded_key(k) for k in nested)
        got_direct = collections.Counter(hash(skey(x)) for x in direct)
        if want_direct != got_direct:
            stats.violation(
                case,
                "direct-children",
                "iter() yields %d code objects, co_consts holds %d (missing %d, surplus %d)"
                % (
                    len(direct),
                    len(nested),
                    sum((want_direct - got_direct).values()),
                    sum((got_direct - want_direct).values()),
                ),
                unreferenced=any(refs[i] == 0 for i in idxs),
                multiply_referenced=any(refs[i] > 1 for i in idxs),
            )
            return
        want_all = collections.Counter(self.decoded_key(c) for p, c in walk_codes(code))
        got_all = collections.Counter(hash(skey(x)) for x in every)
        if want_all != got_all:
            stats.violation(
                case,
                "all-code-data",
                "all_code_data() yields %d, a recursive walk of co_consts finds %d" % (len(every), sum(want_all.values())),
            )
            return
        stats.outcomes["iteration-ok:%d" % min(len(every), 4)] += 1


MONITORS = {"C01": C01, "C02": C02, "C13": C13, "C14": C14}
