# C09 (no redundant override information) and C05 (normalization preserves meaning).
# Python 3.7 compatible.
from __future__ import print_function

import collections
import dataclasses
import sys

import ref
import spaces
from core import PY, PYS, HorizonHit, Monitor, exc_summary, horizon
from mon_code import H, CodeMonitor, flat, hz
from strict import LINE_ATTR, code_diff, code_key, digest64, short, skey, walk_codes

from code_data import Cellvar, CodeData, Constant, Freevar, Jump, Name, NoArg, Varname

KIND_TYPE = {"const": Constant, "name": Name, "local": Varname, "cell": Cellvar}
KIND_FIELD = {"const": "constant", "name": "name", "local": "varname", "cell": "cellvar"}
REMOVAL_CAP = 64


def table_of(code, kind):
    return {
        "const": code.co_consts,
        "name": code.co_names,
        "local": code.co_varnames,
        "cell": code.co_cellvars,
    }[kind]


def n_params(code):
    n = code.co_argcount + code.co_kwonlyargcount
    if code.co_flags & ref.CO_VARARGS:
        n += 1
    if code.co_flags & ref.CO_VARKEYWORDS:
        n += 1
    return n


def is_function(code):
    return code.co_flags & 0x3 == 0x3


def first_use_ranks(code, raw, sym):
    """From CPython's reading only: for each table kind, {index: rank} with function
    parameters and a docstring counting first and unreferenced entries last (in table
    order); and the per-instruction (kind, index) uses."""
    uses = []
    order = {k: [] for k in KIND_TYPE}
    seen = {k: set() for k in KIND_TYPE}
    if is_function(code):
        for i in range(n_params(code)):
            order["local"].append(i)
            seen["local"].add(i)
        if code.co_consts and type(code.co_consts[0]) is str:
            order["const"].append(0)
            seen["const"].add(0)
    # parameters and the docstring are carried by Function(args, docstring): they are
    # referenced by the signature even if no instruction names them
    referenced = {k: set(seen[k]) for k in KIND_TYPE}
    for (first, n, op, arg), (name, kind, val) in zip(raw, sym):
        if kind in KIND_TYPE:
            uses.append((kind, arg))
            referenced[kind].add(arg)
            if arg not in seen[kind]:
                seen[kind].add(arg)
                order[kind].append(arg)
        else:
            uses.append(None)
    ranks = {}
    unref = {}
    for kind in KIND_TYPE:
        t = table_of(code, kind)
        unref[kind] = [i for i in range(len(t)) if i not in referenced[kind]]
        for i in range(len(t)):
            if i not in seen[kind]:
                order[kind].append(i)
        ranks[kind] = dict((idx, r) for r, idx in enumerate(order[kind]))
    return uses, ranks, unref


def value_key(kind, v):
    if kind == "const":
        if isinstance(v, CodeData):
            return ("D", skey(v))
        return skey(v)
    return ("s", v)


class C09(CodeMonitor):
    prop = "C09"

    def __init__(self, tier):
        CodeMonitor.__init__(self, tier)
        # every signature shape (parameters that are never read, read out of order,
        # positional-only, cells): parameters count first in the first-use order
        import mon_misc

        self._strata = [("SIG", mon_misc.sig_cases, mon_misc.n_sig_cases())] + list(self._strata)

    def check_code(self, case, code, stats):
        raw, sym = self.oracle(code, stats)
        d = self.decode(case, code, stats)
        if d is None:
            return
        self.check_one(case, code, raw, sym, d, stats, "decoded")
        # the canonical re-encoding of the same object
        try:
            with horizon(hz(code)):
                c2 = d.normalize().to_code()
                d2 = CodeData.from_code(c2)
        except HorizonHit:
            stats.violation(case, "canonical-no-termination", "normalize/to_code/from_code did not return")
            return
        except Exception as e:
            stats.violation(case, "canonical-raises:" + type(e).__name__, exc_summary(e))
            return
        raw2 = ref.raw_instructions(c2.co_code)
        sym2 = ref.resolve(c2, raw2)
        self.check_one(case, c2, raw2, sym2, d2, stats, "canonical")
        # the same function with its *args / **kwargs variable named '' (legal through an
        # AST or code.replace): parameters still count first in the first-use order
        if case.get("s") == "SIG" and case.get("blankstar") is None and is_function(code):
            i = code.co_argcount + code.co_kwonlyargcount
            for flag in (ref.CO_VARARGS, ref.CO_VARKEYWORDS):
                if code.co_flags & flag:
                    if "" not in code.co_varnames:
                        vn = code.co_varnames[:i] + ("",) + code.co_varnames[i + 1 :]
                        self.check_code(dict(case, blankstar=i), ref.code_replace(code, co_varnames=vn), stats)
                    i += 1

    def replay(self, case, stats):
        root = spaces.build_code(case)
        code = root
        for i in case.get("cpath", []):
            code = code.co_consts[i]
        if case.get("blankstar") is not None:
            i = case["blankstar"]
            code = ref.code_replace(code, co_varnames=code.co_varnames[:i] + ("",) + code.co_varnames[i + 1 :])
        self.check_code(case, code, stats)

    def check_one(self, case, code, raw, sym, d, stats, which):
        uses, ranks, unref = first_use_ranks(code, raw, sym)
        ins = flat(d)
        if len(ins) != len(uses):
            stats.violation(case, "instruction-count", "decoded instruction count differs from CPython's")
            return
        if any(len(table_of(code, k)) for k in KIND_TYPE):
            stats.nontriv((which, code_key(code)))
        # --- additional args == entries no instruction references (multiset, per kind)
        add = {k: [] for k in KIND_TYPE}
        for a in d._additional_args:
            for k, t in KIND_TYPE.items():
                if type(a) is t:
                    add[k].append(a)
                    break
            else:
                stats.violation(case, "additional-args:type", "additional arg of unexpected type %s" % short(a))
                return
        for k in KIND_TYPE:
            t = table_of(code, k)
            want = collections.Counter(value_key(k, CodeData.from_code(t[i]) if type(t[i]) is type(code) else t[i]) for i in unref[k])
            got = collections.Counter(value_key(k, getattr(a, KIND_FIELD[k])) for a in add[k])
            if want != got:
                stats.violation(
                    case,
                    "additional-args:" + which,
                    "%s table: entries no instruction references %s, listed as additional args %s"
                    % (k, short([t[i] for i in unref[k]], 80), short([getattr(a, KIND_FIELD[k]) for a in add[k]], 80)),
                )
                return
            if unref[k]:
                stats.reach["unreferenced:" + k] += 1
        # --- which entries carry an override
        carrying = collections.OrderedDict()  # (kind, index) -> override value
        for idx, (i, u) in enumerate(zip(ins, uses)):
            if u is None:
                continue
            kind, tindex = u
            a = i.arg
            if type(a) is not KIND_TYPE[kind]:
                stats.violation(case, "operand-type", "instruction %d: %s where CPython reads a %s" % (idx, short(a), kind))
                return
            if a._index_override is not None:
                if a._index_override != tindex:
                    stats.violation(case, "override-value", "instruction %d: override %r but table index %d" % (idx, a._index_override, tindex))
                    return
                carrying[(kind, tindex)] = a._index_override
        for k in KIND_TYPE:
            # additional args are listed in table order: the j-th one is the j-th
            # unreferenced index
            for a, tindex in zip(add[k], unref[k]):
                if a._index_override is not None:
                    if a._index_override != tindex:
                        # listing order is not what we assumed; find by override
                        tindex = a._index_override
                    carrying[(k, tindex)] = a._index_override
        dups = False
        for k in KIND_TYPE:
            t = table_of(code, k)
            try:
                ks = [ref.constant_class(x) if type(x) is not type(code) else code_key(x, True) for x in t] if k == "const" else list(t)
                if len(set(ks)) < len(ks):
                    dups = True
            except TypeError:
                pass
        in_order = all(ranks[k][i] == i for k in KIND_TYPE for i in ranks[k]) and not any(unref[k] for k in KIND_TYPE)
        if in_order and not dups:
            stats.reach["tables-in-first-use-order:" + which] += 1
            if carrying or d._additional_args:
                stats.violation(
                    case,
                    "override-on-canonical-tables:" + which,
                    "every table is in first-use order with every entry referenced, yet the decoding carries overrides %s / additional args %s"
                    % (short(list(carrying.items()), 100), short(d._additional_args, 80)),
                )
                return
        if not carrying:
            stats.outcomes["no-override:" + which] += 1
            return
        stats.reach["override-carrying:" + which] += 1
        base = None
        tested = 0
        for (kind, tindex), ov in carrying.items():
            if ranks[kind].get(tindex) != tindex:
                stats.outcomes["override-justified-by-rank"] += 1
                continue
            if tested >= REMOVAL_CAP:
                stats.extra["sum_removal_cap_hits"] = stats.extra.get("sum_removal_cap_hits", 0) + 1
                break
            tested += 1
            if base is None:
                try:
                    with horizon(hz(code)):
                        base = code_key(d.to_code())
                except HorizonHit:
                    return
                except Exception:
                    return  # C01's business
            d2 = remove_override(d, ins, uses, add, unref, kind, tindex)
            try:
                with horizon(hz(code)):
                    c2 = d2.to_code()
            except HorizonHit:
                stats.outcomes["override-justified-by-failure"] += 1
                continue
            except Exception:
                stats.outcomes["override-justified-by-failure"] += 1
                continue
            if code_key(c2) != base:
                stats.outcomes["override-justified-by-difference"] += 1
                continue
            stats.violation(
                case,
                "redundant-override:" + which,
                "%s table entry %d (%s) is at its first-use rank and removing its override from all uses re-encodes to the identical code object, yet it carries _index_override=%r"
                % (kind, tindex, short(table_of(code, kind)[tindex], 40), ov),
            )
            return


def remove_override(d, ins, uses, add, unref, kind, tindex):
    T = KIND_TYPE[kind]
    blocks = []
    it = iter(range(len(ins)))
    idx = 0
    for b in d.blocks:
        nb = []
        for i in b:
            u = uses[idx]
            idx += 1
            if u == (kind, tindex) and type(i.arg) is T and i.arg._index_override is not None:
                i = dataclasses.replace(i, arg=dataclasses.replace(i.arg, _index_override=None))
            nb.append(i)
        blocks.append(tuple(nb))
    new_add = []
    for a in d._additional_args:
        if type(a) is T and a._index_override == tindex:
            a = dataclasses.replace(a, _index_override=None)
        new_add.append(a)
    return dataclasses.replace(d, blocks=tuple(blocks), _additional_args=tuple(new_add))


# ------------------------------------------------------------------------------ C05
class C05(CodeMonitor):
    prop = "C05"

    def check_code(self, case, code, stats):
        raw, sym = self.oracle(code, stats)
        d = self.decode(case, code, stats)
        if d is None:
            return
        try:
            with horizon(hz(code)):
                n = d.normalize()
                c2 = n.to_code()
        except HorizonHit:
            stats.violation(case, "normalize-no-termination", "normalize().to_code() did not return")
            return
        except Exception as e:
            stats.violation(case, "normalize-to_code-raises:" + type(e).__name__, exc_summary(e))
            return
        stats.nontriv(code_key(code))
        why = static_equiv(code, c2, raw, sym)
        if why:
            stats.violation(case, "static:" + why[0], why[1])
            return
        if code_key(code) != code_key(c2):
            stats.outcomes["changed-but-equivalent"] += 1
        else:
            stats.outcomes["unchanged"] += 1


def static_equiv(c, c2, raw=None, sym=None, path=""):
    """None if c2 is observationally the same code as c by CPython's own reading,
    else (kind, explanation).  Recurses into nested code objects (paired through the
    instruction streams, since table order may differ)."""
    if raw is None:
        raw = ref.raw_instructions(c.co_code)
    raw2 = ref.raw_instructions(c2.co_code)
    if len(raw) != len(raw2):
        return ("instruction-count", "%s%d instructions became %d" % (path, len(raw), len(raw2)))
    ncell, ncell2 = len(c.co_cellvars), len(c2.co_cellvars)
    off2idx = dict((r[0], i) for i, r in enumerate(raw))
    off2idx2 = dict((r[0], i) for i, r in enumerate(raw2))
    for idx, ((f1, n1, op1, a1), (f2, n2, op2, a2)) in enumerate(zip(raw, raw2)):
        if op1 != op2:
            return ("opcode", "%sinstruction %d: %s became %s" % (path, idx, ref.dis.opname[op1], ref.dis.opname[op2]))
        name = ref.dis.opname[op1]
        if op1 in ref.HASCONST:
            k1, k2 = c.co_consts[a1], c2.co_consts[a2]
            if type(k1) is type(c) and type(k2) is type(c):
                r = static_equiv(k1, k2, path=path + "const[%d]." % a1)
                if r:
                    return r
            elif skey(k1, True) != skey(k2, True):
                # NaNs are identified (as everywhere in these properties): the library
                # treats every NaN as the same constant, so normalization may load a NaN
                # with other payload/sign bits
                return ("operand:const", "%sinstruction %d %s: constant %s became %s" % (path, idx, name, short(k1), short(k2)))
        elif op1 in ref.HASNAME:
            if c.co_names[a1] != c2.co_names[a2]:
                return ("operand:name", "%sinstruction %d %s: name %r became %r" % (path, idx, name, c.co_names[a1], c2.co_names[a2]))
        elif op1 in ref.HASLOCAL:
            if c.co_varnames[a1] != c2.co_varnames[a2]:
                return ("operand:local", "%sinstruction %d %s: local %r became %r" % (path, idx, name, c.co_varnames[a1], c2.co_varnames[a2]))
        elif op1 in ref.HASFREE:
            v1 = ("cell", c.co_cellvars[a1]) if a1 < ncell else ("free", c.co_freevars[a1 - ncell])
            v2 = ("cell", c2.co_cellvars[a2]) if a2 < ncell2 else ("free", c2.co_freevars[a2 - ncell2])
            if v1 != v2:
                return ("operand:cellfree", "%sinstruction %d %s: %r became %r" % (path, idx, name, v1, v2))
        elif op1 in ref.HASJABS:
            t1 = off2idx.get(a1 * ref.JUMP_UNIT)
            t2 = off2idx2.get(a2 * ref.JUMP_UNIT)
            if t1 is None or t1 != t2:
                return ("jump", "%sinstruction %d %s: jumps to instruction %r, after normalization to %r" % (path, idx, name, t1, t2))
        elif op1 in ref.HASJREL:
            t1 = off2idx.get(f1 + 2 * n1 + a1 * ref.JUMP_UNIT)
            t2 = off2idx2.get(f2 + 2 * n2 + a2 * ref.JUMP_UNIT)
            if t1 is None or t1 != t2:
                return ("jump", "%sinstruction %d %s: jumps to instruction %r, after normalization to %r" % (path, idx, name, t1, t2))
        elif op1 >= ref.HAVE_ARGUMENT:
            if a1 != a2:
                return ("operand:raw", "%sinstruction %d %s: operand %d became %d" % (path, idx, name, a1, a2))
        l1, l2 = ref.addr2line(c, f1), ref.addr2line(c2, f2)
        if l1 != l2:
            return ("line", "%sinstruction %d %s: line %r became %r" % (path, idx, name, l1, l2))
    for attr in ("co_name", "co_filename", "co_firstlineno", "co_stacksize", "co_freevars", "co_argcount", "co_kwonlyargcount", "co_nlocals"):
        if attr == "co_nlocals":
            continue
        x, y = getattr(c, attr), getattr(c2, attr)
        if x != y or type(x) is not type(y):
            return ("header:" + attr, "%s%s: %r became %r" % (path, attr, x, y))
    if getattr(c, "co_posonlyargcount", 0) != getattr(c2, "co_posonlyargcount", 0):
        return ("header:co_posonlyargcount", path + "co_posonlyargcount changed")
    if ref.sig_from_header(c) != ref.sig_from_header(c2):
        return ("signature", "%ssignature %r became %r" % (path, ref.sig_from_header(c), ref.sig_from_header(c2)))
    if is_function(c):
        d1 = c.co_consts[0] if c.co_consts and type(c.co_consts[0]) is str else None
        d2 = c2.co_consts[0] if c2.co_consts and type(c2.co_consts[0]) is str else None
        if d1 != d2:
            return ("docstring", "%s__doc__ %r became %r" % (path, d1, d2))
    fd = c.co_flags ^ c2.co_flags
    allowed = ref.CO_NESTED
    if set(c.co_cellvars) != set(c2.co_cellvars) and set(c2.co_cellvars) < set(c.co_cellvars):
        allowed |= ref.CO_NOFREE
    if fd & ~allowed:
        return ("flags", "%sco_flags 0x%x became 0x%x" % (path, c.co_flags, c2.co_flags))
    # locals that are read or written keep their identity; cell variables that are
    # parameters stay cells (the calling convention copies arguments into them)
    return None


MONITORS = {"C09": C09, "C05": C05}


# ------------------------------------------------------------- C05 behavioural (R-EXEC)
PRELUDE = """
import contextlib as _cl
a = 3
b = [1, 2, 0]
c = {'k': 1}
x = 5
v = 0
w = None
def f(*args, **kw):
    return (args, sorted(kw.items()))
@_cl.contextmanager
def cm():
    yield 7
"""

EXEC_STMTS = [
    "v = a + 1",
    "v += x",
    "p, (q, *r) = (1, (2, 3, 4))",
    "if a > x:\n    v = 1\nelse:\n    v = 2",
    "for i in b:\n    v += i\n    if i == 7: break\nelse:\n    v -= 1",
    "while v < 3:\n    v += 1\n    if v == 2: continue\n    if v > 5: break",
    "try:\n    raise ValueError('e')\nexcept ValueError as e:\n    v = str(e)\nfinally:\n    w = 1",
    "try:\n    v = 1\nfinally:\n    w = (lambda: 2)()",
    "with cm() as w:\n    v = w",
    "def fn(p, q=2, *r, k=1, **kw):\n    'doc'\n    return (p, q, r, k, sorted(kw))\nv = fn(1, 2, 3, k=4, z=5)",
    "v = [i * 2 for i in b if i]",
    "v = {i: j for i in b for j in b}",
    "g = (i for i in b)\nv = list(g)",
    "v = (lambda y: y + a)(1)",
    "def outer(p):\n    q = 'cell'\n    def inner():\n        return (p, q, a)\n    return inner\nv = outer(2)()",
    "class K:\n    'cdoc'\n    z = 1\n    def m(self):\n        return (self.z, __class__.__name__)\nv = K().m()",
    "def gen(n):\n    for i in range(n):\n        yield i\n    return 'done'\nv = list(gen(3))",
    "v = f'{a!r:>{x}}'",
    "v = a if x else b",
    "v = a and x or b",
    "v = 1 < a < 5 < x",
    "assert a, 'msg'",
    "v = -0.0; w = (1e999 - 1e999)",
    "print(a, v)",
    "v = b[10]",
    "raise KeyError('k')",
    "import math\nv = math.floor(2.5)",
    "v = 1\n\n\n\nw = 2",
    "v = f(a,\n\n      x)",
    "async def co(t):\n    return t + 1\n_c = co(1)\ntry:\n    _c.send(None)\nexcept StopIteration as e:\n    v = e.value",
    "v = (1, 2.0, 'three', b'4', None, ..., 5j) + (a,)",
    "v = a in {1, 2, 3}",
    "def rec(n):\n    return 1 if n < 2 else n * rec(n - 1)\nv = rec(4)",
    "v = sorted(c.items()); del c['k']",
]


def exec_cases(tier="quick"):
    n = len(EXEC_STMTS)
    if tier == "thorough":
        for i in range(n):
            for j in range(n):
                for k in range(n):
                    yield {"k": "exec", "s": "X3", "i": i, "j": j, "l": k, "ctx": "function" if (i + j + k) % 2 else "module", "opt": 0}
    for i in range(n):
        for j in range(n):
            for ctx in ("module", "function"):
                yield {"k": "exec", "s": "X", "i": i, "j": j, "ctx": ctx, "opt": 0}
    for i in range(n):
        for opt in (1, 2):
            yield {"k": "exec", "s": "X", "i": i, "j": None, "ctx": "module", "opt": opt}


def n_exec_cases(tier="quick"):
    n = len(EXEC_STMTS)
    return n * n * 2 + n * 2 + (n ** 3 if tier == "thorough" else 0)


def exec_source(case):
    parts = [EXEC_STMTS[case["i"]]]
    if case["j"] is not None:
        parts.append(EXEC_STMTS[case["j"]])
    if case.get("l") is not None:
        parts.append(EXEC_STMTS[case["l"]])
    body = "\n".join(parts) + "\n"
    if case["ctx"] == "function":
        ind = "".join("    " + l + "\n" if l else "\n" for l in body.split("\n")[:-1])
        body = "def main(a, b, c, x, v=0, w=None):\n" + ind + "    return sorted((k, repr(val)) for k, val in locals().items() if not callable(val) and ' at 0x' not in repr(val))\nresult = main(a, b, c, x)\n"
    return body


def observe(code):
    """R-EXEC: run a module code object in fresh prelude-initialized globals and
    return everything a user could observe, address-free."""
    import io
    import contextlib
    import traceback as tbmod

    g = {"__name__": "__verif__"}
    exec(compile(PRELUDE, "<prelude>", "exec"), g)
    events = []
    fname = code.co_filename

    def tracer(frame, event, arg):
        if frame.f_code.co_filename != fname:
            return None
        events.append((frame.f_code.co_name, event, frame.f_lineno))
        return tracer

    out = io.StringIO()
    exc = None
    old = sys.gettrace()
    try:
        with contextlib.redirect_stdout(out):
            sys.settrace(tracer)
            try:
                exec(code, g)
            except BaseException as e:  # noqa
                tb = e.__traceback__
                lines = []
                while tb is not None:
                    if tb.tb_frame.f_code.co_filename == fname:
                        lines.append((tb.tb_frame.f_code.co_name, tb.tb_lineno))
                    tb = tb.tb_next
                exc = (type(e).__name__, str(e), tuple(lines))
            finally:
                sys.settrace(old)
    finally:
        sys.settrace(old)
    res = []
    for k in sorted(g):
        if k.startswith("__") or k in ("_cl",):
            continue
        val = g[k]
        if callable(val) or type(val).__name__ in ("module", "generator", "coroutine"):
            res.append((k, type(val).__name__, getattr(val, "__doc__", None) if type(val).__name__ == "function" else None))
        else:
            res.append((k, repr(val)))
    return (out.getvalue(), exc, tuple(res), tuple(events))


def check_exec(mon, case, stats):
    src = exec_source(case)
    try:
        code = compile(src, "<verif>", "exec", dont_inherit=True, optimize=case["opt"])
    except SyntaxError:
        stats.skipped["not-compilable"] += 1
        return
    stats.sample("X", {"program": src}, per=2)
    stats.evaluations += 1
    try:
        with horizon(hz(code)):
            c2 = CodeData.from_code(code).normalize().to_code()
    except HorizonHit:
        stats.violation(case, "normalize-no-termination", "")
        return
    except Exception as e:
        stats.violation(case, "normalize-to_code-raises:" + type(e).__name__, exc_summary(e))
        return
    with horizon(30.0):
        o1 = observe(code)
        o1b = observe(code)
        o2 = observe(c2)
    if o1 != o1b:
        raise ref.HarnessError("program is not deterministic: %r" % src)
    stats.nontriv(("exec", case["i"], case["j"], case.get("l"), case["ctx"], case["opt"]))
    if o1[1] is not None:
        stats.reach["exec:raises"] += 1
    if o1[0]:
        stats.reach["exec:prints"] += 1
    stats.reach["exec:events"] += len(o1[3])
    if o1 != o2:
        names = ("stdout", "exception/traceback lines", "resulting globals", "traced (name, event, line) stream")
        which = [n for n, p, q in zip(names, o1, o2) if p != q]
        detail = ""
        for n, p, q in zip(names, o1, o2):
            if p != q:
                detail = "%s: before %s, after %s" % (n, short(p, 160), short(q, 160))
                if n.startswith("traced"):
                    for k, (e1, e2) in enumerate(zip(p, q)):
                        if e1 != e2:
                            detail = "traced event %d: before %s, after %s" % (k, e1, e2)
                            break
                break
        stats.violation(case, "behaviour:" + which[0].split(" ")[0].split("/")[0], "executing the normalized code differs in %s; %s" % (which, detail))
        return
    stats.outcomes["behaviour-identical"] += 1


_C05_check = C05.check
_C05_init = C05.__init__


def _c05_init(self, tier):
    _C05_init(self, tier)
    self._strata = [("X", lambda: exec_cases(tier), n_exec_cases(tier))] + list(self._strata)


def _c05_check(self, case, stats):
    if case["k"] == "exec":
        return check_exec(self, case, stats)
    return _C05_check(self, case, stats)


def _c05_replay(self, case, stats):
    if case["k"] == "exec":
        return check_exec(self, case, stats)
    return CodeMonitor.replay(self, case, stats)


C05.__init__ = _c05_init
C05.check = _c05_check
C05.replay = _c05_replay
