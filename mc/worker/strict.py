# R-STRICT: strict structural keys and diffs.  Python 3.7 compatible.
#
# Nothing in here calls the library's __eq__/__hash__: keys are built from raw field
# values, type-tagged, floats by IEEE-754 bits (or all NaNs identified on request).
from __future__ import print_function

import dataclasses
import struct
import sys
from types import CodeType

PY = sys.version_info[:2]

CODE_ATTRS = [
    "co_argcount",
    "co_kwonlyargcount",
    "co_nlocals",
    "co_stacksize",
    "co_flags",
    "co_code",
    "co_consts",
    "co_names",
    "co_varnames",
    "co_filename",
    "co_name",
    "co_firstlineno",
    "co_freevars",
    "co_cellvars",
]
if PY >= (3, 8):
    CODE_ATTRS.insert(1, "co_posonlyargcount")
LINE_ATTR = "co_linetable" if PY >= (3, 10) else "co_lnotab"
CODE_ATTRS.append(LINE_ATTR)

HEADER_ATTRS = [a for a in CODE_ATTRS if a not in ("co_code", "co_consts", LINE_ATTR)]


def fkey(v, nan_ident):
    if v != v and nan_ident:
        return "nan"
    return struct.pack(">d", v)


def skey(v, nan_ident=False):
    """Strict key of a constant / code object / dataclass value."""
    t = type(v)
    if t is str:
        return ("s", v)
    if t is int:
        return ("i", v)
    if t is bool:
        return ("b", v)
    if v is None:
        return ("N",)
    if t is tuple:
        return ("t", tuple([skey(x, nan_ident) for x in v]))
    if t is float:
        return ("f", fkey(v, nan_ident))
    if t is bytes:
        return ("y", v)
    if t is complex:
        return ("c", fkey(v.real, nan_ident), fkey(v.imag, nan_ident))
    if v is Ellipsis:
        return ("E",)
    if t is frozenset:
        return ("fs", frozenset([skey(x, nan_ident) for x in v]))
    if t is CodeType:
        return code_key(v, nan_ident)
    if dataclasses.is_dataclass(v) and not isinstance(v, type):
        fs = dataclasses.fields(v)
        key = (
            "D",
            t.__name__,
            tuple([(f.name, skey(getattr(v, f.name), nan_ident)) for f in fs]),
        )
        d = getattr(v, "__dict__", None)
        if d is not None and len(d) != len(fs):
            # anything stored on the instance besides its fields (hidden caches) is part
            # of its state: an API call that adds it has modified the object
            names = set(f.name for f in fs)
            extra = tuple(sorted((k, short(x, 60)) for k, x in d.items() if k not in names))
            if extra:
                key = key + (("<extra-instance-attributes>", extra),)
        return key
    if t is list:
        return ("L", tuple([skey(x, nan_ident) for x in v]))
    if t is dict:
        return (
            "M",
            tuple([(skey(k, nan_ident), skey(x, nan_ident)) for k, x in v.items()]),
        )
    if t is set:
        return ("S", frozenset([skey(x, nan_ident) for x in v]))
    # unknown subclass etc: tag with the type name so it never equals an exact one
    return ("?", t.__module__, t.__name__, repr(v))


def code_key(c, nan_ident=False):
    out = ["code"]
    for a in CODE_ATTRS:
        x = getattr(c, a)
        if a == "co_consts":
            out.append(skey(x, nan_ident))
        elif type(x) is tuple:
            out.append(tuple([(type(e).__name__, e) for e in x]))
        else:
            out.append((type(x).__name__, x))
    return tuple(out)


def code_diff(a, b, nan_ident=False, path="", out=None, limit=12):
    """List of 'path.attr' strings on which two code objects differ (recursive)."""
    if out is None:
        out = []
    for attr in CODE_ATTRS:
        if len(out) >= limit:
            break
        x, y = getattr(a, attr), getattr(b, attr)
        if attr == "co_consts":
            if type(x) is not type(y) or len(x) != len(y):
                out.append("%s%s(len %s/%s)" % (path, attr, len(x), len(y)))
                continue
            for i, (p, q) in enumerate(zip(x, y)):
                if type(p) is CodeType and type(q) is CodeType:
                    code_diff(p, q, nan_ident, "%sconsts[%d]." % (path, i), out, limit)
                elif skey(p, nan_ident) != skey(q, nan_ident):
                    out.append("%sco_consts[%d]: %s != %s" % (path, i, short(p), short(q)))
        else:
            kx = (type(x).__name__, x) if type(x) is not tuple else tuple((type(e).__name__, e) for e in x)
            ky = (type(y).__name__, y) if type(y) is not tuple else tuple((type(e).__name__, e) for e in y)
            if kx != ky or type(x) is not type(y):
                out.append("%s%s: %s != %s" % (path, attr, short(x), short(y)))
    return out


def short(v, n=120):
    try:
        r = repr(v)
    except Exception as e:  # pragma: no cover
        r = "<repr failed %s>" % type(e).__name__
    if len(r) > n:
        r = r[: n - 20] + "...(%d chars)" % len(r)
    return r


def jkey(v):
    """Type-exact key of a JSON-like document (1 != True != 1.0, list != tuple)."""
    t = type(v)
    if t is dict:
        return ("d", tuple([(jkey(k), jkey(x)) for k, x in v.items()]))
    if t is list:
        return ("l", tuple([jkey(x) for x in v]))
    if t is float:
        return ("f", struct.pack(">d", v))
    if t in (str, int, bool) or v is None:
        return (t.__name__, v)
    if t is tuple:
        return ("T", tuple([jkey(x) for x in v]))
    return ("?", t.__name__, repr(v))


def jkey_unordered(v):
    """Like jkey but dict key order is ignored (a JSON object is unordered)."""
    t = type(v)
    if t is dict:
        return ("d", frozenset([(k, jkey_unordered(x)) for k, x in v.items()]))
    if t is list:
        return ("l", tuple([jkey_unordered(x) for x in v]))
    if t is float:
        return ("f", struct.pack(">d", v))
    if t in (str, int, bool) or v is None:
        return (t.__name__, v)
    return ("?", t.__name__, repr(v))


def walk_codes(c, path=()):
    """Yield (path, code) for c and every code object nested in co_consts (pre-order)."""
    yield path, c
    for i, k in enumerate(c.co_consts):
        if type(k) is CodeType:
            for r in walk_codes(k, path + (i,)):
                yield r


def digest64(key):
    """Stable 64-bit digest of a key (stable across processes: built from repr)."""
    import hashlib

    h = hashlib.blake2b(
        stable_repr(key).encode("utf-8", "backslashreplace"), digest_size=8
    )
    return int.from_bytes(h.digest(), "big")


def stable_repr(key):
    """repr() that does not depend on set iteration order."""
    t = type(key)
    if t is tuple:
        return "(" + ",".join([stable_repr(x) for x in key]) + ")"
    if t is frozenset or t is set:
        return "{" + ",".join(sorted([stable_repr(x) for x in key])) + "}"
    if t is list:
        return "[" + ",".join([stable_repr(x) for x in key]) + "]"
    if t is dict:
        return "<" + ",".join(sorted([stable_repr(k) + ":" + stable_repr(v) for k, v in key.items()])) + ">"
    if t is int:
        return hex(key)  # no int->str digit limit
    return repr(key)
