# Minimal stand-in used only on interpreters where the real typing_extensions is
# absent.  code_data imports only `Literal` from it (for a type alias).
try:
    from typing import Literal  # 3.8+
except ImportError:  # 3.7
    class _Lit(object):
        def __getitem__(self, item):
            return object
    Literal = _Lit()
