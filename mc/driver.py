#!/usr/bin/env python3
"""Driver: deals shards to worker processes on the real interpreters, merges what they
report, matches known findings, writes replays and the evidence file.

Exit 0: the property held on everything explored (KNOWN-FINDING lines allowed).
Exit 1: `VIOLATION property=<id> replay=<path>` printed for each unlisted kind.
Exit 2: `HARNESS:` the machinery itself failed (never a verdict).
"""
import argparse
import array
import collections
import hashlib
import json
import os
import shutil
import subprocess
import sys
import tempfile
import time

HERE = os.path.dirname(os.path.abspath(__file__))
VERIF = os.path.dirname(HERE)
sys.path.insert(0, HERE)

from props import PROPS  # noqa: E402

REPO = os.environ.get("VERIF_REPO", "/repo")
# where evidence/ and replays/ are written (seed validation runs redirect it so that the
# committed evidence always comes from runs against /repo itself)
OUT = os.environ.get("VERIF_OUT", VERIF)
PYROOT = os.environ.get("VERIF_PYROOT", "/root/.pyenv/versions")
VERSIONS = {
    "3.7": "3.7.16",
    "3.8": "3.8.18",
    "3.9": "3.9.18",
    "3.10": "3.10.13",
    "3.11": "3.11.7",
    "3.12": "3.12.1",
    "3.13": "3.13.0",
}
NCPU = int(os.environ.get("VERIF_JOBS", str(os.cpu_count() or 4)))


def interp_path(v):
    return os.path.join(PYROOT, VERSIONS[v], "bin", "python")


def worker_env(v, stage=1):
    env = dict(os.environ)
    shim = os.path.join(HERE, "shim")
    env["PYTHONPATH"] = REPO + os.pathsep + shim
    env["PYTHONDONTWRITEBYTECODE"] = "1"
    # fixed string-hash seed: 0 in stage 1, 1 in stage 2 (so that anything carried from
    # one stage to the next also crosses a hash-seed boundary)
    env["PYTHONHASHSEED"] = str(stage - 1)
    env["VERIF_REPO"] = REPO
    env["CODE_DATA_VERIF"] = "1"
    env.pop("PYTHONSTARTUP", None)
    env.pop("PYTHONOPTIMIZE", None)
    return env


def harness_fail(msg):
    print("HARNESS: " + msg)
    sys.exit(2)


def load_known():
    p = os.path.join(VERIF, "known_findings.json")
    if not os.path.exists(p):
        return []
    return json.load(open(p)).get("findings", [])


def matches(entry, prop, rec):
    """Does a violation record match a known-finding entry?  All of the entry's match
    keys must agree; `py` may be a list."""
    if entry.get("status") != "known" or entry.get("property") != prop:
        return False
    m = entry.get("match", {})
    for k, want in m.items():
        got = rec.get(k)
        if k == "py":
            if got not in want:
                return False
        elif k == "detail_contains":
            if want not in rec.get("detail", ""):
                return False
        elif got != want:
            return False
    return True


def run_shards(prop, tier, seed, versions, nshards_per, workdir, extra_args=(), stage=1):
    jobs = []
    for v in versions:
        for s in range(nshards_per):
            out = os.path.join(workdir, "r_%s_%d.json" % (v, s))
            cmd = [
                interp_path(v),
                os.path.join(HERE, "worker", "main.py"),
                "--prop",
                prop,
                "--tier",
                tier,
                "--shard",
                "%d/%d" % (s, nshards_per),
                "--seed",
                str(seed),
                "--out",
                out,
            ] + list(extra_args)
            jobs.append((v, s, cmd, out))
    # rotate the scheduling order by the seed (the explored set does not change)
    if jobs:
        r = seed % len(jobs)
        jobs = jobs[r:] + jobs[:r]
    running = []
    results = []
    pending = list(jobs)
    while pending or running:
        while pending and len(running) < NCPU:
            v, s, cmd, out = pending.pop(0)
            log = open(out + ".log", "w")
            p = subprocess.Popen(cmd, stdout=log, stderr=subprocess.STDOUT, env=worker_env(v, stage), cwd=workdir)
            running.append((p, v, s, out, log))
        time.sleep(0.05)
        still = []
        for p, v, s, out, log in running:
            rc = p.poll()
            if rc is None:
                still.append((p, v, s, out, log))
                continue
            log.close()
            if rc != 0 or not os.path.exists(out):
                tail = open(out + ".log").read()[-2000:]
                harness_fail("worker %s shard %d exited %s: %s" % (v, s, rc, tail))
            results.append((v, s, out))
        running = still
    return results


def main():
    ap = argparse.ArgumentParser()
    ap.add_argument("prop")
    ap.add_argument("--tier", default=os.environ.get("VERIF_TIER", "quick"))
    ap.add_argument("--replay")
    ap.add_argument("--py", default=None, help="comma list of interpreter versions")
    ap.add_argument("--shards", type=int, default=None)
    ap.add_argument("--keep", action="store_true")
    a = ap.parse_args()
    prop = a.prop
    if prop not in PROPS:
        harness_fail("unknown property %s" % prop)
    meta = PROPS[prop]
    tier = a.tier if a.tier in ("quick", "thorough") else "quick"
    try:
        seed = int(os.environ.get("VERIF_SEED", "0"))
    except ValueError:
        seed = 0

    if a.replay:
        rec = json.load(open(a.replay))
        v = rec.get("py", "3.10")
        cmd = [interp_path(v), os.path.join(HERE, "worker", "main.py"), "--prop", prop, "--tier", tier, "--replay", os.path.abspath(a.replay)]
        rc = subprocess.call(cmd, env=worker_env(v))
        sys.exit(rc)

    t0 = time.time()
    versions = a.py.split(",") if a.py else list(meta["interpreters"])
    missing = [v for v in versions if not os.path.exists(interp_path(v))]
    versions = [v for v in versions if v not in missing]
    producers = [v for v in versions if v in ("3.7", "3.8", "3.9", "3.10")]
    if not producers:
        harness_fail("no producer interpreter (3.7-3.10) found under %s" % PYROOT)
    if not os.path.isdir(os.path.join(REPO, "code_data")):
        harness_fail("%s/code_data not found" % REPO)

    workroot = os.path.join(OUT, ".work")
    os.makedirs(workroot, exist_ok=True)
    workdir = tempfile.mkdtemp(prefix="%s_" % prop, dir=workroot)
    try:
        nshards = a.shards or meta.get("shards", {}).get(tier) or max(1, (NCPU * 2) // max(1, len(versions)))
        shared = os.path.join(workdir, "shared")
        os.makedirs(shared)
        results = []
        for stage in range(1, meta.get("stages", 1) + 1):
            stagedir = os.path.join(workdir, "stage%d" % stage)
            os.makedirs(stagedir)
            results += run_shards(prop, tier, seed, versions, nshards, stagedir, ["--stage", str(stage), "--shared", shared], stage)
        post = {}
        if meta.get("post"):
            post = POST[meta["post"]](shared)
        verdict = merge_and_report(prop, meta, tier, seed, versions, missing, nshards, results, t0, post)
    finally:
        if not a.keep:
            shutil.rmtree(workdir, ignore_errors=True)
    sys.exit(verdict)


def post_c07_schema(shared):
    """Cross-validation of the worker's mini validator with jsonschema's Draft7Validator
    (a validator the repository does not use) on the documents the workers handed over,
    plus negative controls."""
    try:
        import jsonschema
    except ImportError:
        return {"note_schema_cross_validation": "jsonschema not importable in the driver; mini validator only"}
    sys.path.insert(0, REPO)
    try:
        from code_data import JSON_SCHEMA
    except Exception as e:
        harness_fail("driver cannot import code_data.JSON_SCHEMA: %r" % (e,))
    finally:
        sys.path.pop(0)
    val = jsonschema.Draft7Validator(JSON_SCHEMA)
    n = 0
    neg = 0
    for fn in sorted(os.listdir(shared)):
        if not fn.startswith("c07docs_"):
            continue
        for line in open(os.path.join(shared, fn)):
            rec = json.loads(line)
            ok = val.is_valid(rec["doc"])
            n += 1
            if ok != rec["valid"]:
                harness_fail("mini validator (%s) and jsonschema (%s) disagree on %s" % (rec["valid"], ok, json.dumps(rec["doc"])[:600]))
            if neg < 50 and isinstance(rec["doc"].get("blocks"), list):
                bad = dict(rec["doc"], blocks=5)
                if val.is_valid(bad):
                    harness_fail("negative control: schema accepts blocks=5")
                neg += 1
    if n == 0:
        harness_fail("no documents were handed to the driver for cross-validation")
    return {"sum_docs_cross_validated_with_jsonschema": n, "sum_negative_controls": neg}


POST = {"c07_schema": post_c07_schema}


def merge_and_report(prop, meta, tier, seed, versions, missing, nshards, results, t0, post=None):
    per_py = {}
    digests = set()
    C = collections.Counter
    tot = {
        "enumerated": C(),
        "skipped": C(),
        "reach": C(),
        "outcomes": C(),
        "viol_kinds": C(),
    }
    evaluations = 0
    viol_total = 0
    horizon_hits = 0
    states = transitions = traces = 0
    violations = []
    samples = {}
    harness_errors = []
    predicted = {}
    enumerated_py = C()
    extra_merge = {}
    for v, s, out in results:
        d = json.load(open(out))
        if d["extra"].get("fatal"):
            harness_fail("worker %s shard %d failed:\n%s" % (v, s, d["extra"]["fatal"]))
        harness_errors.extend(d["extra"].get("harness_errors", []))
        with open(out + ".digests", "rb") as f:
            arr = array.array("Q")
            arr.frombytes(f.read())
            digests.update(arr)
        pp = per_py.setdefault(v, {"enumerated": 0, "evaluations": 0, "skipped": C(), "reach": C(), "violations": 0})
        n_enum = sum(d["enumerated"].values())
        pp["enumerated"] += n_enum
        pp["evaluations"] += d["evaluations"]
        pp["skipped"].update(d["skipped"])
        pp["reach"].update(d["reach"])
        pp["violations"] += d["viol_total"]
        enumerated_py[v] += n_enum
        if "predicted" in d["extra"]:
            predicted[v] = predicted.get(v, 0) + d["extra"]["predicted"]
        for k in ("enumerated", "skipped", "reach", "outcomes", "viol_kinds"):
            tot[k].update(d[k])
        evaluations += d["evaluations"]
        viol_total += d["viol_total"]
        horizon_hits += d["horizon_hits"]
        states += d["states"]
        transitions += d["transitions"]
        traces += d["traces_validated"]
        violations.extend(d["violations"])
        for k, l in d["samples"].items():
            samples.setdefault(k, [])
            if len(samples[k]) < 2:
                samples[k].extend(l[: 2 - len(samples[k])])
        for k, val in d["extra"].items():
            if k.startswith("sum_") and isinstance(val, (int, float)):
                extra_merge[k] = extra_merge.get(k, 0) + val
            elif k.startswith("flag_") and val:
                extra_merge[k] = True
            elif k.startswith("note_"):
                extra_merge.setdefault(k, val)
    if harness_errors:
        harness_fail("oracle self-check failed on %d cases, first: %s" % (len(harness_errors), json.dumps(harness_errors[0])[:1500]))

    # exhaustiveness: predicted (closed form) == enumerated, per interpreter
    exhaustive = True
    for v in versions:
        if predicted.get(v) is None or predicted[v] != enumerated_py[v]:
            exhaustive = False
    if not exhaustive:
        harness_fail("enumerated %s != predicted %s (space not covered completely)" % (dict(enumerated_py), predicted))

    # vacuity guard: required reach cells
    producers = [v for v in versions if v in ("3.7", "3.8", "3.9", "3.10")]
    dev = bool(os.environ.get("VERIF_STRATA"))
    unreached = []
    if dev:
        print("DEV-MODE: VERIF_STRATA set, reach guard skipped; not a registered way to run a check")
    for cell in [] if dev else meta.get("required_reach", {}).get(tier, meta.get("required_reach", {}).get("quick", [])):
        scope = producers
        name = cell
        if "@" in cell:
            name, vs = cell.split("@")
            scope = [v for v in vs.split(",") if v in versions]
        for v in scope:
            if per_py[v]["reach"].get(name, 0) + tot["outcomes"].get(name, 0) == 0:
                unreached.append("<%s> on %s" % (name, v))

    known = load_known()
    os.makedirs(os.path.join(OUT, "replays", prop), exist_ok=True)
    new_kinds = collections.OrderedDict()
    known_hits = collections.OrderedDict()
    for rec in violations:
        ent = None
        for e in known:
            if matches(e, prop, rec):
                ent = e
                break
        if ent is not None:
            known_hits.setdefault(ent["id"], (ent, []))[1].append(rec)
        else:
            new_kinds.setdefault((rec["kind"], rec["py"]), []).append(rec)
    # violations beyond the recorded cap: every kind has >=1 record, so kinds decide
    for ent_id, (ent, recs) in known_hits.items():
        print("KNOWN-FINDING: property=%s %s (%d occurrences recorded this run, e.g. %s)" % (prop, ent["what"], len(recs), json.dumps(recs[0]["case"])[:200]))
    printed = 0
    for (kind, py), recs in new_kinds.items():
        rec = dict(recs[0])
        rec["property"] = prop
        rec["tier"] = tier
        h = hashlib.sha1(json.dumps(rec["case"], sort_keys=True).encode() + kind.encode() + py.encode()).hexdigest()[:12]
        path = os.path.join(OUT, "replays", prop, "%s.json" % h)
        with open(path, "w") as f:
            json.dump(rec, f, indent=1)
        if printed < 25:
            print("VIOLATION property=%s replay=%s" % (prop, path))
            print("  kind=%s py=%s count(kind)=%d: %s" % (kind, py, tot["viol_kinds"][kind], rec["detail"][:400]))
            print("  case=%s" % json.dumps(rec["case"])[:400])
        printed += 1

    if unreached and not new_kinds:
        # silence from a driver that never reached the code means nothing
        harness_fail("space does not reach " + ", ".join(unreached))
    n_new = sum(len(r) for r in new_kinds.values())
    wall = time.time() - t0
    level = meta["level"]
    cov = {
        "evaluations": int(evaluations),
        "distinct_nontrivial": len(digests),
        "rule": meta["rule"],
        "samples": [{"stratum": k, "cases": l} for k, l in sorted(samples.items())][:12] or [{"note": "no samples recorded"}],
        "exhaustive": bool(exhaustive),
        "cases_enumerated_per_interpreter": dict(enumerated_py),
        "cases_predicted_per_interpreter": predicted,
        "cases_per_stratum_all_interpreters": dict(tot["enumerated"]),
        "skipped": dict(tot["skipped"]),
        "reach": {v: dict(per_py[v]["reach"]) for v in versions},
        "outcome_classes": dict(tot["outcomes"]),
        "violation_kinds": dict(tot["viol_kinds"]),
        "known_findings_hit": sorted(known_hits),
        "horizon_hits": horizon_hits,
        "interpreters_covered": versions,
        "interpreters_missing": missing,
        "shards_per_interpreter": nshards,
        "bounds": meta.get("bounds", {}).get(tier, ""),
    }
    cov.update(extra_merge)
    cov.update(post or {})
    if level == "model_checking" and states >= 1 and transitions >= 1:
        # (a run that stops at its first violations may not have completed any state;
        # then only the exploration-style counts are reported)
        cov["states"] = int(states)
        cov["transitions"] = int(transitions)
        cov["traces_validated_against_impl"] = int(traces)
    ev = {
        "property_id": prop,
        "tier": tier,
        "seed": seed,
        "level": level,
        "coverage": cov,
        "assumptions": meta["assumptions"],
        "wall_s": round(wall, 2),
        "violations": int(n_new),
    }
    validate_evidence(ev)
    os.makedirs(os.path.join(OUT, "evidence"), exist_ok=True)
    with open(os.path.join(OUT, "evidence", "%s.json" % prop), "w") as f:
        json.dump(ev, f, indent=1, sort_keys=True)
    print(
        "%s tier=%s seed=%d: cases=%d evaluations=%d distinct_nontrivial=%d violations=%d known=%d wall=%.1fs exhaustive=%s"
        % (prop, tier, seed, sum(enumerated_py.values()), evaluations, len(digests), n_new, sum(len(r[1]) for r in known_hits.values()), wall, exhaustive)
    )
    return 1 if new_kinds else 0


def validate_evidence(ev):
    try:
        import jsonschema
    except ImportError:
        return
    p = "/root/.vp/EVIDENCE.schema.json"
    if not os.path.exists(p):
        p = os.path.join(VERIF, "schemas", "EVIDENCE.schema.json")
    if not os.path.exists(p):
        return
    schema = json.load(open(p))
    try:
        jsonschema.validate(ev, schema)
    except jsonschema.ValidationError as e:
        harness_fail("evidence does not validate: %s" % str(e)[:500])


if __name__ == "__main__":
    main()
