"""Per-property metadata used by the driver (level, rule text, vacuity guards)."""

PRODUCERS = ("3.7", "3.8", "3.9", "3.10")
ALL = ("3.7", "3.8", "3.9", "3.10", "3.11", "3.12", "3.13")

TRUST = [
    "CPython's dis tables, PyCode_Addr2Line, co_lines(), inspect, _PyCode_ConstantKey and types.CodeType are the reference",
    "the 7-line typing_extensions stand-in (only `Literal`, used in a type alias) does not change behaviour",
    "the harness's own strict structural keys (mc/worker/strict.py) are correct; R-RAW/R-DIS are self-checked against dis on every code object",
    "only the CPython patch releases on disk (3.7.16, 3.8.18, 3.9.18, 3.10.13) are covered",
]

PROG_RULE = (
    "closed-form enumeration (predicted cardinality == enumerated, else HARNESS error) of the bounded program grammar "
    "S-PROG (strata Pa: statements x expressions depth<=1 x {module,def} x optimize{0,1,2}; Pb: ordered statement pairs x 7 contexts; "
    "Pc: statement nested in statement x 3 contexts; Pe: eval-mode expressions depth<=2; Ps: single-mode), boundary families F/J "
    "(operand and jump widths), programs Q holding constants that are == but not the same constant (signed zeros, 1/1.0/True, tuples and sets of those, NaNs of either sign) alone and pairwise, line-shape programs L (module level) and Ld (the same shapes inside a function body), the repo's own regression sources R%s; compiled by each real interpreter; "
    "every nested code object is one evaluation, deduplicated by strict key. distinct_nontrivial = distinct code objects (by strict key over all co_* fields) %s"
)

CODE_REACH = [
    "operand:const:1",
    "operand:const:2",
    "operand:name:1",
    "operand:name:2",
    "operand:name:3",
    "operand:const:3",
    "operand:local:1",
    "operand:local:2",
    "operand:cell:1",
    "operand:cell:2",
    "operand:free:1",
    "operand:jabs:1",
    "operand:jabs:2",
    "operand:jabs:3",
    "operand:jrel:1",
    "operand:jrel:2",
    "operand:raw:1",
    "operand:raw:2",
    "fn:GENERATOR",
    "fn:COROUTINE",
    "fn:ASYNC_GENERATOR",
    "fn:docstring",
    "nonfn",
    "unref:const",
    "unref:cell",
    "cells+frees",
    "nested-code",
    "line:split-bytes",
    "line:split-lines",
    "line:backward@3.8,3.9,3.10",
    "line:noline@3.10",
    "dup-consts@3.7,3.8,3.9",
]

PROPS = {
    "C01": {
        "level": "exploration",
        "interpreters": PRODUCERS,
        "rule": PROG_RULE % (", and (both tiers) every .py of each interpreter's stdlib", "that were round-tripped"),
        "assumptions": TRUST,
        "required_reach": {"quick": CODE_REACH},
        "bounds": {
            "quick": "expr depth<=1 (Pa), pairs, nesting 2, tables 255..257 and 65536, jump bodies around 1/2-byte boundaries, stdlib corpus",
            "thorough": "adds expr depth 2, triples, nesting 3, tables 65535..65537 of every kind, jump bodies around 3-byte boundaries",
        },
    },
    "C02": {
        "level": "exploration",
        "interpreters": PRODUCERS,
        "rule": PROG_RULE % ("; thorough adds the stdlib corpus", "whose decoded stream was compared with CPython's reading instruction by instruction"),
        "assumptions": TRUST,
        "required_reach": {"quick": CODE_REACH + ["jump-ok"]},
    },
    "C13": {
        "level": "exploration",
        "interpreters": PRODUCERS,
        "rule": PROG_RULE % ("; thorough adds the stdlib corpus", "with at least one jump (so more than the trivial one-block partition is at stake)"),
        "assumptions": TRUST,
        "required_reach": {"quick": CODE_REACH + ["partition-ok:multi", "partition-ok:single"]},
    },
    "C14": {
        "level": "exploration",
        "interpreters": PRODUCERS,
        "rule": PROG_RULE % ("; thorough adds the stdlib corpus", "holding at least one nested code object"),
        "assumptions": TRUST,
        "required_reach": {"quick": CODE_REACH + ["nested-unreferenced", "nested-referenced-twice"]},
    },
    "C09": {
        "level": "exploration",
        "interpreters": PRODUCERS,
        "rule": "every function of the signature-shape space S-SIG (see C04; also with its *args / **kwargs variable renamed to the empty string), and " + PROG_RULE % ("; thorough adds the stdlib corpus", "with at least one operand-table entry, counted separately as decoded and as canonically re-encoded (normalize().to_code() decoded again)")
        + ". For every override-carrying table entry whose position equals its first-use rank (computed from CPython's reading), the override is removed from all uses with dataclasses.replace and the data re-encoded: identical code => violation.",
        "assumptions": TRUST + ["at most 64 removal experiments per code object (cap hits are reported as sum_removal_cap_hits; 0 on a healthy tree)"],
        "required_reach": {"quick": CODE_REACH + ["unreferenced:const", "unreferenced:name@3.7,3.8,3.9", "tables-in-first-use-order:decoded", "tables-in-first-use-order:canonical", "override-carrying:decoded"]},
    },
    "C05": {
        "level": "exploration",
        "interpreters": PRODUCERS,
        "rule": PROG_RULE % ("; thorough adds the stdlib corpus", "compared statically (CPython's reading of both code objects, recursively through nested code) ")
        + " Behavioural stratum X: all ordered pairs of 35 closed, terminating statements (assignments, branches, loops with break/continue/else, try/except/finally, with, def/closure/class/generator/coroutine driven by hand, comprehensions, f-strings, chained comparison, assert, raising statements, imports, far-apart and backward lines) x {module body, function body called with the prelude values} plus each statement at optimize 1 and 2 (thorough: also all ordered triples), executed before and after normalization in fresh prelude-initialized globals under sys.settrace: stdout, exception type/message/traceback lines, address-free resulting globals/locals and the full (code name, event, line) trace stream must be identical.",
        "assumptions": TRUST + ["behavioural equivalence is decided only for the closed, terminating executable sub-grammar"],
        "required_reach": {"quick": CODE_REACH + ["changed-but-equivalent", "behaviour-identical", "exec:raises", "exec:prints", "exec:events"]},
    },
    "C04": {
        "level": "exploration",
        "interpreters": PRODUCERS,
        "rule": "S-SIG completely: (posonly{0,1,2 on 3.8+} x pos-or-kw{0,1,2} x kwonly{0,1,2} x *args{0,1} x **kw{0,1}) x {def, lambda, async def, generator, async generator, method} x 12 docstring shapes (none, plain, non-first string, non-string first statement, bytes, f-string, lone surrogate, string first used as a value, stripped by optimize=2, empty string, empty string also used as a value, whitespace) x parameter-is-a-cell{no,yes}, plus comprehensions/class bodies/modules, each S-SIG function also renamed (co_name '<lambda>', '<listcomp>', '<module>', ''), plus every function-like code object of the program grammar (Pa, Pc, repo sources; thorough: all strata and the stdlib corpus). Oracle: header reading of CPython's local layout, inspect.signature of a function built from the code, and CPython's own argument binding of a stub with the same header (positional/keyword/negative calls). distinct_nontrivial = distinct (signature, flags, first-constant type) triples of function-like code objects. After each judgement the caller empties the mapping that Args.parameters handed out and the same code object is decoded and read again: the second answer must still be CPython's binding (answers are the caller's own, whatever it did to earlier ones).",
        "assumptions": TRUST + ["inspect's 'implicitN' presentation of comprehension parameters is undone (see DESIGN 9.2)"],
        "required_reach": {"quick": ["param:POSITIONAL_ONLY@3.8,3.9,3.10", "param:POSITIONAL_OR_KEYWORD", "param:VAR_POSITIONAL", "param:KEYWORD_ONLY", "param:VAR_KEYWORD", "param:star+kwonly", "has-doc", "kind:GENERATOR", "kind:COROUTINE", "kind:ASYNC_GENERATOR", "kind:None", "nonfn", "sig-ok", "nonfn-ok"]},
    },
    "C11": {
        "level": "exploration",
        "interpreters": PRODUCERS,
        "rule": "all 2^18 subsets of the flag bits CPython defines (dis.COMPILER_FLAG_NAMES + __future__ compiler flags, read from CPython, not from the library) converted to names and back, in chunks of 64 words each run in a freshly forked child (enum's pseudo-member cache); every word with exactly one of the 14 unknown bits x subsets of known flags of size <=2 (thorough: x all 2^18); header alterations of 16 base code objects: co_flags XOR every mask of Hamming weight <=2 over 32 bits (529 each), and every (argcount, posonlyargcount, kwonlyargcount) triple in 0..min(len(varnames),4) x {0, each single flag bit, both function flags cleared} that types.CodeType accepts; and every name-carrying header entry (each variable/cell/free/global name, co_name, co_filename) replaced in turn by '', a non-identifier and a lone surrogate. ; negative words (bit 31 as a negative int, -1, -2); for base objects that are nested, the fields code.__eq__ ignores (co_stacksize, co_filename, line table) of the nested object altered and the parent converted right after the unaltered parent. Oracle: from_code raises or to_code() is strictly identical to the altered object. distinct_nontrivial = distinct flag words + distinct (base, alteration) pairs built. Line-table alterations of each base object: emptied, cut after the first entry, and continued with 1-4 entries at and beyond the end of the bytecode (byte steps 2 and 4, forward and backward line bytes): from_code raises or to_code reproduces the table and every other field.",
        "assumptions": TRUST,
        "required_reach": {"quick": ["word-ok", "unknown-bit-raises", "reproduced", "from_code-raises"]},
        "shards": {"quick": 16, "thorough": 16},
    },
    "C10": {
        "level": "model_checking",
        "interpreters": PRODUCERS,
        "rule": "abstract line programs = sequences (length <=2; thorough also length 3 over reduced alphabets) of steps (bytecode delta in {2,4,252,254,256,258,508,510,512,764,1020} (+0 for lnotab), line delta in {0,+-1,+-127,+-128,+-129,+-254,255,-256,-257,381,-384} (thorough: also +-126,+-253,-255,+256) | no-line (3.10)), x tail {trailing entry, 2, 300 bytes} for lnotab, emitted through executable models of CPython's assemblers (assemble_lnotab 3.7/3.8/3.9 variants, 3.10 assemble_line_range) into real code objects; plus programs whose statements carry chosen line numbers and bytecode lengths compiled by the real compiler (AST route); plus every table of the program grammar (thorough: and of the stdlib). Every real table and every model table on code of <= 520 bytes also goes through a full CodeData.from_code/to_code round trip of the object carrying it. states = distinct (table, code length, first line) triples judged; transitions = codec stage applications; traces_validated_against_impl = model traces whose table CPython's own reader (PyCode_Addr2Line) read back exactly as the line program says + compile()-realizable programs where the model's bytes equal the real assembler's table. Before its native judgement every abstract line program is also emitted in the *other* format by the same assembler models and taken through the six stage functions with the format flag turned round (decode, then re-encode must reproduce the model's table): both formats are handled in one process, in interleaved order.",
        "assumptions": TRUST + ["the 3.10 continuation rule for no-line runs longer than 254 bytes ((254,-128) chunks) cannot be produced by compile(); it is bound to CPython by read-back through PyCode_Addr2Line only"],
        "required_reach": {"quick": ["table:no-line-long@3.10", "table:no-line@3.10", "table:split-bytes", "table:split-line", "table:zero-width", "table:backward", "table:zero-delta-entry@3.7,3.8", "model-conforms-to-compile", "table-ok:model", "table-ok:real", "codedata-roundtrip-ok", "other-format-ok"]},
    },
    "C08": {
        "level": "exploration",
        "interpreters": ALL,
        "rule": "all ordered pairs of the constant universe S-CONST (54 atoms incl. signed zeros, NaNs with either sign and a payload, infinities, 2^53 neighbours, huge ints, complex with signed zero/NaN parts, lone surrogates, tag-lookalike strings, bytes, Ellipsis; closed under 1-tuples, singleton frozensets, pairs over a 12-atom core, one more nesting level; each value built twice independently) compared as Constant, as one-instruction CodeData and against the JSON-loaded copy: == must coincide with CPython's constant partition (_PyCode_ConstantKey, NaNs merged; cross-checked against the harness's strict key on every pair), be symmetric, consistent with !=, and imply equal hashes and mutual set/dict membership; equal values encode to identical code. All ordered pairs of CodeData obtained from a spread of 300 (thorough 600) grammar programs by 7 routes (decode, decode of an independent compile, normalize, JSON load of both, field-by-field reconstruction, decode of encode) plus about 16 single-field deviations of the decoded value (each must be unequal to everything else). setattr/delattr of every field of every dataclass. Second stage, in processes with another string-hash seed: the decoded, normalized and JSON-loaded value of every program, pickled by the first stage after being hashed, must equal the freshly computed value, hash equal and be found in a set. distinct_nontrivial = distinct equal pairs of non-identical objects + (type, field) pairs. Every code object of every program, decoded on its own and normalized, must be hashable. The program routes also cover 16 functions with one or two unreachable lines after `return` (before 3.10 they decode to an AdditionalLine with several additional offsets).",
        "assumptions": TRUST + ["on 3.11-3.13 only the hand-built and JSON routes exist (from_code cannot run there)"],
        "stages": 2,
        "required_reach": {"quick": ["equal-pair-ok", "unequal-pair-ok", "frozen-ok", "route-pair-equal", "unpickled-equal-and-hash-equal"]},
    },
    "C07": {
        "level": "exploration",
        "interpreters": ("3.7", "3.8", "3.9", "3.10", "3.11"),
        "post": "c07_schema",
        "rule": "every value of S-CONST (see C08) x position {instruction operand, unreferenced table entry, operand of a nested function} and every string of a 19-string list (empty, non-ASCII, astral, lone surrogates, NUL, tag lookalikes) x position {name, local, parameter, cell, free variable, co_name, co_filename, docstring, class name, file name of a module and its nested function}, each built as a real code object (decoded and normalized) and as hand-built CodeData; 4 synthetic CodeData exercising every schema definition; every code object (decoded and normalized) of program stratum Pa (optimize 0) as whole-module documents (thorough: every quick-tier stratum of the code-object checks (no stdlib corpus, no depth-2 expression, triple or depth-3 strata), every nested object on its own too). For each: strict-JSON walker, independent Draft-7 mini validator (cross-checked in the driver against jsonschema.Draft7Validator on a deterministic subset + negative controls), json and json-as-UTF-8 (and orjson on 3.11) serialize/parse cycles, from_json_data == original (strict key, NaNs identified), hashable, to_code identical.",
        "assumptions": TRUST + ["orjson exists only on the 3.11 host, where only hand-built CodeData can be used (from_code cannot run there)"],
        "required_reach": {"quick": ["cycle-ok:json", "cycle-ok:json-utf8", "cycle-ok:orjson@3.11", "encodes-identically"]},
    },
    "C15": {
        "level": "exploration",
        "interpreters": ALL,
        "stages": 2,
        "rule": "stage 1: each producer 3.7-3.10 writes the documents (decoded and normalized) of S-CONST x {operand, additional}, the string x position family and a spread of 6000 (thorough 16000, i.e. practically all of stratum Pa at optimize 0) grammar programs; stage 2: each of the seven consumers 3.7-3.13 loads every producer's documents (28 ordered pairs), re-serializes and compares canonical dumps (sorted keys, frozenset listings sorted), and compares normalize() of the loaded value with the producer's own normalized document. distinct_nontrivial = distinct (producer, consumer, document) triples.",
        "assumptions": TRUST,
        "required_reach": {"quick": ["portable:3.7->3.13", "portable:3.10->3.7", "portable:3.8->3.11", "portable:3.9->3.12", "portable:3.10->3.10"]},
    },
    "C03": {
        "level": "exploration",
        "interpreters": PRODUCERS,
        "rule": "hand-built CodeData, complete products: block graphs (2-4 blocks x NOP paddings {0,1,b-1,b} (thorough {0,1,b-2..b+1}) around the 1->2 unit jump boundary b of the running interpreter x one jump from {JUMP_ABSOLUTE, POP_JUMP_IF_FALSE -> any block; JUMP_FORWARD, FOR_ITER -> later block}; 3 blocks x all pairs of jumps from different blocks; thorough: paddings around the 2->3 unit boundary); chains of 3/12/20/40 absolute jumps whose targets sit 1,2,3,... instructions below the boundary (every layout pass grows one more jump); operand tables of 0,1,2,255,256,257,65537 (thorough 65535..65537) names/constants/locals/cells with and without repeated uses, free-variable operands after 0..257 cell variables (referenced by instructions, or listed only as additional args) followed by a jump; all assignments of 8 line values (+None on 3.10) to 3 line slots x first line {1,3,200} x short/long middle run; all ordered pairs of S-CONST loaded by two LOAD_CONST; all ordered pairs of 11 hand-built nested functions `lambda: v` (v with colliding hashes or == across types) loaded as two code constants; all signature shapes x function type x docstring {None, plain, lone surrogate} x body x free variable; override consistency: 3 operands over 2 values x overrides {None,0,1,2,5}^3 x 4 table kinds and two pairs of ==-but-distinct constants (0.0/-0.0, 1/True); single edits (delete each instruction, clear additional args, clear each override) of every decoded object of a spread of 1500 (thorough 15000) grammar programs. Oracle: to_code terminates; CPython's reading of the result (R-DIS, PyCode_Addr2Line, header, inspect) equals the data instruction by instruction; decoding again equals the input up to normalization; inconsistent overrides raise or stay in-table with the given values.",
        "assumptions": TRUST + ["on <=3.9 line_number=None is outside the alphabet (lnotab cannot say 'no line'; to_code refuses it)"],
        "required_reach": {"quick": ["jump-units:1", "jump-units:2", "operand-units:2", "operand-units:3", "encodes-ok:G1", "encodes-ok:G2", "encodes-ok:GC", "encodes-ok:T", "encodes-ok:LN", "encodes-ok:SG", "encodes-ok:ED", "encodes-ok:NP", "inconsistent-overrides-refused", "overrides-accepted-consistent", "const-pair-ok:same", "const-pair-ok:distinct"], "thorough": ["jump-units:3"]},
    },
    "C06": {
        "level": "model_checking",
        "interpreters": PRODUCERS,
        "rule": "(i) explicit-state search: from every code object of every 8th program of stratum Pa, of every statement template in every context (P1), of the equal-but-distinct-constant programs Q (thorough: all of Pa + a third of Pb) of the jump-width programs J (bodies up to 200 statements, so that re-encoding normalized data must grow jumps) and of the 65 537-entry name table (thorough: name and constant tables of 65 535..65 537 entries), breadth-first over the operations {code round trip, JSON round trip, normalize} applied to real CodeData values hash-consed by strict key (NaNs identified), to closure or depth 4 (thorough 6); invariants on every state: normalize idempotent, normalize(state) == normalize(from_code(c0)); a graph that does not close is a violation. (ii) every serialization variant of every code object with tables <=6 entries: all permutations (<=4 movable entries; transpositions above) of the name/constant/local/cell tables with operands renumbered (docstring slot, parameters and free variables fixed), one unreferenced padding entry at every movable position, a redundant EXTENDED_ARG 0 before each instruction in turn, a harness re-assembly with a different line-table encoding, CO_NESTED toggled; each also substituted inside its parents up to the root. Each variant is first confirmed (harness self-check) to read to CPython exactly like the original. states = CodeData values reached; transitions = operation applications; traces_validated_against_impl = graphs explored on the real implementation.",
        "assumptions": TRUST,
        "required_reach": {"quick": ["graph-closed", "variant:permute", "variant:pad", "variant:extended-arg-0", "variant:toggle", "variant:reassembled", "variant-nested", "variant-ok"]},
    },
    "C12": {
        "level": "model_checking",
        "interpreters": PRODUCERS,
        "rule": "for every code object of a spread of 400 (thorough 1200) grammar programs (plus P1, Q and one huge-integer program): a store {code object, its CodeData, the normalized CodeData, their two JSON documents}; every sequence of <=2 (thorough <=3) calls among the 9 concrete calls (110 / 1110 sequences per code object, run back to back on one shared store) {from_code(c), to_code(d|n), normalize(d|n), to_json_data(d|n), from_json_data(jd|jn)} on those shared objects; after every call the whole store is compared with its initial strict snapshot (documents incl. nested containers and key order) and the result with the result of the same call on untouched arguments; then one mutation (pop/clear/append) at every container path of a returned document followed by to_json_data again, and of an input document after from_json_data; every code object also has a twin (equal under code.__eq__, other file name) that is decoded next to it, and at the end of each worker process (4 per interpreter, so several hundred arguments each) every object and twin is passed to from_code/normalize/to_json_data once more and must give its first results. states = distinct store snapshots; transitions = calls; traces_validated_against_impl = call sequences executed. Five more base objects carry a lone-surrogate name as parameter, free variable, cell variable, local and global name (their JSON documents hold {'string': ...} wrappers inside list-valued fields).",
        "assumptions": TRUST,
        "required_reach": {"quick": ["function-document", "pure:110-sequences", "recheck-ok"], "thorough": ["function-document", "pure:1110-sequences", "recheck-ok"]},
        "shards": {"quick": 4, "thorough": 4},
    },
    "C16": {
        "level": "exploration",
        "interpreters": PRODUCERS,
        "rule": "S-CLI completely: presence/absence of each program source {file, -c, -e, -m} (16 combinations: 4 valid, 12 usage errors) x all 2^5 subsets of {--dis, --dis-after, --source, --no-normalize, --json} x 13 programs (empty; two lines (its -e form builds the text from `linesep` inside a generator expression); nested functions/closure/class; NaN/inf/-0.0/bytes/surrogate/complex/huge-int/tuple/frozenset constants; 300 constants; non-ASCII; async/comprehension/try/while; lines >255 apart; a latin-1 coding cookie; a UTF-8 BOM; whitespace-only lines inside triple-quoted strings; backslash-n inside literals; one-line suites) = 6656 argv vectors per interpreter (plus each program once as `/dev/stdin` fed through a pipe), each run in-process through code_data._cli.main(); the vectors with no flag and with all flags are also run through the real entry point in a subprocess and must agree. Oracle: usage error (exit 2) iff the number of sources != 1; else exit 0, the printed CodeData line textually equals repr() of the API result (normalized unless --no-normalize), the printed JSON loads back to it, --dis/--dis-after listings equal the harness's own dis of the program (opnames and resolved operands). Every single-source vector with -c, -e or -m is also run with the value attached to the option (-cx=1, -mjson: 3 x 32 x 13 more vectors; the empty -c value has no attached spelling and is skipped).",
        "assumptions": TRUST + ["the plain-console path is checked (rich is not installed on the producer interpreters)"],
        "required_reach": {"quick": ["usage-error:0-sources", "usage-error:2-sources", "usage-error:4-sources", "prints-api-result:file", "prints-api-result:-c", "prints-api-result:-e", "prints-api-result:-m", "json-ok", "dis-after-ok", "subprocess-agrees", "pipe-source-ok"]},
    },
}

BASE_NOTE = (
    "Trusted: CPython's dis/inspect/PyCode_Addr2Line/_PyCode_ConstantKey/types.CodeType on the four interpreters on disk; the harness's strict keys; "
    "the typing_extensions stand-in. Bounded: programs outside the grammar/corpus, operands >= 2^24 and other CPython builds are not covered."
)

MANIFEST_TEXT = {
    "C01": {
        "text": "Bounded-exhaustive exploration on the real implementation: every code object of a closed-form program grammar, boundary families and each interpreter's whole stdlib is decoded and re-encoded under the real 3.7-3.10 interpreters and compared attribute by attribute (incl. raw line table, filename, stacksize, bit-exact constants) with a strict key that never uses the library's or code.__eq__.",
        "design_ref": "DESIGN.md section 4 C01",
        "note": BASE_NOTE,
        "technique": "bounded exhaustive enumeration of programs (model checking of the implementation: all inputs up to a grammar bound), strict structural oracle",
    },
    "C02": {
        "text": "Same exhaustive space as C01; each decoded instruction, operand, jump target and line is compared with CPython's own reading (dis tables + PyCode_Addr2Line), which catches errors shared by encoder and decoder that a round trip cannot see.",
        "design_ref": "DESIGN.md section 4 C02",
        "note": BASE_NOTE,
        "technique": "bounded exhaustive enumeration of programs; independent reference reader (R-DIS/R-LINE) as oracle",
    },
    "C09": {
        "text": "Same exhaustive space (decoded and canonically re-encoded objects); first-use ranks are computed from CPython's reading; every override-carrying entry sitting at its rank is put to the removal experiment the property itself defines (remove from all uses, re-encode, compare strictly); additional args compared with the unreferenced entries as multisets.",
        "design_ref": "DESIGN.md section 4 C09",
        "note": BASE_NOTE,
        "technique": "bounded exhaustive enumeration of programs; per-entry removal experiment on the real encoder",
    },
    "C05": {
        "text": "Same exhaustive space: CPython's own reading of c and of normalize().to_code() compared instruction by instruction (operands resolved, jump targets as instruction indices, lines via PyCode_Addr2Line, signature, docstring, header, flags up to CO_NESTED/CO_NOFREE), recursively; plus real execution of a closed terminating sub-grammar under sys.settrace before and after.",
        "design_ref": "DESIGN.md section 4 C05",
        "note": BASE_NOTE,
        "technique": "bounded exhaustive enumeration of programs; static reference reading plus differential execution with tracing",
    },
    "C04": {
        "text": "Exhaustive over the signature-shape space S-SIG on each interpreter plus all function-like code of the program grammar; three independent readings of the calling convention (header layout, inspect.signature, real argument binding of a stub) decide each parameter's kind; docstring and kind against FunctionType.__doc__ and inspect's classifiers.",
        "design_ref": "DESIGN.md section 4 C04",
        "note": BASE_NOTE,
        "technique": "exhaustive enumeration of signature shapes x function kinds x docstring shapes; CPython's binding as oracle",
    },
    "C11": {
        "text": "Exhaustive over all 2^18 known flag words per interpreter, every single unknown bit mixed with known flags, and a deviation-bounded (Hamming <=2, all count triples) family of hand-altered headers; the oracle for altered objects is strict identity of the re-encoded object or an exception.",
        "design_ref": "DESIGN.md section 4 C11",
        "note": BASE_NOTE,
        "technique": "exhaustive enumeration of flag words (2^18) and deviation-bounded header alterations; raise-or-reproduce oracle",
    },
    "C10": {
        "text": "Model checking with conformance: executable models of CPython's line-table assemblers enumerate every abstract line program up to the bound; every model trace is replayed against CPython (its reader must read the program back; where compile() can realize the program the model's bytes must equal the real assembler's) and against the implementation (decode == CPython's reading at every offset, re-encode == table byte for byte).",
        "design_ref": "DESIGN.md section 4 C10, section 3 R-ASM",
        "note": BASE_NOTE,
        "technique": "explicit enumeration of assembler-model traces up to a length bound, each replayed against CPython's reader/assembler and the implementation",
        "engine": "explore",
    },
    "C08": {
        "text": "Exhaustive over all ordered pairs of a closed constant universe (two independent copies, so identity shortcuts cannot hide an equality bug) and over all ordered pairs of CodeData produced by seven routes from a spread of programs, on seven interpreter versions (NaN hashing changed in 3.10): agreement of == with CPython's own constant partition on all pairs makes reflexivity, symmetry and transitivity consequences; hash contract and set/dict membership checked on every equal pair.",
        "design_ref": "DESIGN.md section 4 C08",
        "note": BASE_NOTE,
        "technique": "exhaustive pair enumeration over a closed value universe; CPython's constant key as reference partition",
    },
    "C07": {
        "text": "Exhaustive over a closed constant universe x every position a constant or string can occupy (real decoded objects and hand-built ones), plus all documents of the program grammar; three independent oracles (strictness walker, schema validation by two independent validators, real serialize/parse cycles with json, UTF-8 bytes and orjson) and loss-freeness by strict key and by re-encoding.",
        "design_ref": "DESIGN.md section 4 C07",
        "note": BASE_NOTE,
        "technique": "exhaustive enumeration of constants x positions and of grammar programs; serialize/parse cycle with strict-key comparison",
    },
    "C15": {
        "text": "Exhaustive over the producer x consumer matrix (4 x 7 real interpreters): every document of the enumerated space written by one interpreter is loaded, re-serialized and normalized by every other; byte-identical canonical dumps required.",
        "design_ref": "DESIGN.md section 4 C15",
        "note": BASE_NOTE,
        "technique": "exhaustive interpreter-pair matrix over an enumerated document space; differential comparison of canonical dumps",
    },
    "C03": {
        "text": "Bounded-exhaustive exploration of hand-built and hand-edited CodeData on the real encoder: every case's result is read back by CPython's own readers and compared with what the data says (jump targets as instruction indices at any operand width, operands resolved type-exactly, lines, signature, flags), then decoded again and compared up to normalization.",
        "design_ref": "DESIGN.md section 4 C03",
        "note": BASE_NOTE,
        "technique": "bounded exhaustive enumeration of well-formed data (complete products over small alphabets around every width boundary); reference reading of the encoder's output",
    },
    "C06": {
        "text": "Explicit-state model checking over real transition functions: the set of CodeData values reachable under the API's round trips and normalize is explored to closure from every initial code object, so the invariants (idempotence, history-independence of the normal form) are inductive - they hold for operation sequences of any length, not only up to the explored depth; plus exhaustive enumeration of serialization variants (table permutations, paddings, redundant prefixes, flag) of small code objects, each checked to be meaning-preserving by CPython's reading before it is used.",
        "design_ref": "DESIGN.md section 4 C06, section 1.2 E1",
        "note": BASE_NOTE,
        "technique": "explicit-state BFS over API operations on real objects to closure (hash-consed by strict key) + exhaustive variant enumeration",
    },
    "C12": {
        "text": "Exhaustive enumeration of API call histories (all sequences up to the depth bound over 9 concrete calls) on shared argument objects, with a full strict snapshot of every shared object after every call and comparison with the same call on untouched arguments; plus one mutation at every container path of returned/input documents.",
        "design_ref": "DESIGN.md section 4 C12",
        "note": BASE_NOTE,
        "technique": "exhaustive operation-history enumeration on shared objects with state snapshots after every step",
    },
    "C16": {
        "text": "Exhaustive over the argv space S-CLI (all source-option combinations x all output-flag subsets x 13 programs) on each interpreter, in-process and (for the extreme flag sets) through the real entry point; the printed text is compared with the API's own result computed in the same process.",
        "design_ref": "DESIGN.md section 4 C16",
        "note": BASE_NOTE,
        "technique": "exhaustive enumeration of argument vectors; printed output compared textually with the API result",
    },
    "C13": {
        "text": "Same exhaustive space; the block partition is compared with the jump-target set computed from CPython's reading: no empty block, exact starts, every later block targeted.",
        "design_ref": "DESIGN.md section 4 C13",
        "note": BASE_NOTE,
        "technique": "bounded exhaustive enumeration of programs; invariant on every decoded state",
    },
    "C14": {
        "text": "Same exhaustive space incl. dead nested code and multiply-referenced code constants; iteration results compared as multisets (strict keys) with a recursive walk of co_consts decoded independently.",
        "design_ref": "DESIGN.md section 4 C14",
        "note": BASE_NOTE,
        "technique": "bounded exhaustive enumeration of programs; differential oracle against co_consts walk",
    },
}
