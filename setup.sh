#!/bin/sh
# MANIFEST.setup_cmd: nothing to build (pure Python); verify the pieces are there.
set -e
HERE="$(cd "$(dirname "$0")" && pwd)"
PYROOT="${VERIF_PYROOT:-/root/.pyenv/versions}"
n=0
for v in 3.7.16 3.8.18 3.9.18 3.10.13 3.11.7 3.12.1 3.13.0; do
  p="$PYROOT/$v/bin/python"
  if [ -x "$p" ]; then
    PYTHONDONTWRITEBYTECODE=1 PYTHONPATH="${VERIF_REPO:-/repo}:$HERE/mc/shim" "$p" -c "import code_data, sys; print('ok', sys.version_info[:3])"
    n=$((n+1))
  else
    echo "interpreter $v not found (checks report it as not covered)"
  fi
done
[ "$n" -ge 1 ] || { echo "HARNESS: no interpreter found under $PYROOT"; exit 2; }
PYVT="$(command -v python3-vt || echo /opt/veriftools/pyvenv/bin/python)"
"$PYVT" -c "import jsonschema; print('jsonschema ok')"
mkdir -p "$HERE/evidence" "$HERE/replays" "$HERE/.work"
echo "setup done"
