#!/bin/sh
# tools/seedcheck.sh <seed-dir> <name> <prop> [more props...]
# Validates a seeded defect (patch.diff + demo.py) in a scratch worktree and runs the given
# checks against that worktree (VERIF_REPO), writing their output under /tmp/sv_out/<name>.
SEED="$1"; NAME="$2"; shift 2
WT=/tmp/sv_$NAME
OUTD=/tmp/sv_out/$NAME
rm -rf "$OUTD"; mkdir -p "$OUTD"
git -C /repo worktree remove --force "$WT" >/dev/null 2>&1
git -C /repo worktree add --detach "$WT" HEAD >/dev/null 2>&1 || { echo "worktree failed"; exit 2; }
if ! git -C "$WT" apply "$SEED/patch.diff" 2>"$OUTD/apply.err"; then echo "$NAME: PATCH DOES NOT APPLY: $(head -c 300 $OUTD/apply.err)"; git -C /repo worktree remove --force "$WT"; exit 2; fi
BASE=$(/verif/tools/baseline.sh "$WT" | head -1)
DEMO_WITH=""; DEMO_WITHOUT=""
for v in 3.7.16 3.8.18 3.9.18 3.10.13 3.11.7; do
  if [ -f "$SEED/demo.py" ]; then
    PYTHONDONTWRITEBYTECODE=1 PYTHONHASHSEED=0 PYTHONPATH=$WT:/verif/mc/shim timeout 300 /root/.pyenv/versions/$v/bin/python "$SEED/demo.py" >/dev/null 2>&1; a=$?
    PYTHONDONTWRITEBYTECODE=1 PYTHONHASHSEED=0 PYTHONPATH=/repo:/verif/mc/shim timeout 300 /root/.pyenv/versions/$v/bin/python "$SEED/demo.py" >/dev/null 2>&1; b=$?
    DEMO_WITH="$DEMO_WITH $v:$a"; DEMO_WITHOUT="$DEMO_WITHOUT $v:$b"
  fi
done
RES=""
for P in "$@"; do
  VERIF_REPO=$WT VERIF_OUT=$OUTD /verif/check $P --tier ${TIER:-quick} >"$OUTD/$P.log" 2>&1; rc=$?
  kinds=$(grep -o "kind=[^ ]*" "$OUTD/$P.log" | sort | uniq -c | sort -rn | head -4 | awk '{printf "%s(%s) ", $2, $1}')
  RES="$RES $P:exit$rc[$kinds]"
done
echo "$NAME | $BASE | demo-with:$DEMO_WITH | demo-without:$DEMO_WITHOUT | checks:$RES"
git -C /repo worktree remove --force "$WT" >/dev/null 2>&1
