#!/usr/bin/env python3
"""tools/ingest_wave.py <wave-tag> <out-root> <PROP> [<PROP>...]
Copies the sub-agent deliveries <out-root>/<PROP>_<wave-tag>/<n>/{patch.diff,demo.py,notes.md}
to seeded/<PROP>_<wave-tag>_<n>/, validates each with tools/seedcheck.sh (pinned tests, demo
with/without, the property's quick check against the scratch worktree) and writes meta.json.
Re-running with REFRESH=1 only re-runs seedcheck and updates final_run."""
import json, os, shutil, subprocess, sys
tag, root, props = sys.argv[1], sys.argv[2], sys.argv[3:]
V = '/verif'
for p in props:
    for n in ('1', '2'):
        src = f'{root}/{p}_{tag}/{n}'
        sid = f'{p}_{tag}_{n}'
        dst = f'{V}/seeded/{sid}'
        if os.environ.get('ONLY') and sid not in os.environ['ONLY'].split(','):
            continue
        if not os.path.exists(dst):
            if not (os.path.isfile(src + '/patch.diff') and os.path.isfile(src + '/demo.py')):
                continue
            os.makedirs(dst)
            for f in ('patch.diff', 'demo.py', 'notes.md'):
                if os.path.isfile(f'{src}/{f}'):
                    shutil.copy(f'{src}/{f}', dst)
        out = subprocess.run([f'{V}/tools/seedcheck.sh', dst, sid, p], capture_output=True, text=True).stdout.strip()
        print(out, flush=True)
        parts = [x.strip() for x in out.split('|')]
        mp = f'{dst}/meta.json'
        if os.path.exists(mp):
            meta = json.load(open(mp))
            meta['final_run'] = parts[-1]
            meta['caught_after_strengthening'] = 'exit1' in parts[-1] and 'exit1' not in meta['first_run_of_own_check']
        else:
            notes = open(dst + '/notes.md').read().strip().split('\n') if os.path.exists(dst + '/notes.md') else ['']
            meta = {
                'id': sid, 'property': p,
                'origin': 'independent sub-agent given only the property text, a scratch worktree and one-line descriptions of the earlier ideas (wave 6, blind: no harness was changed before the first validation run)',
                'needs_to_manifest': [l.lstrip('- ').strip() for l in notes if l.strip()][:12],
                'validated_by_me': {'tool': 'tools/seedcheck.sh', 'baseline_with_patch': parts[1] if len(parts) > 1 else '',
                                    'demo_exit_with_patch': parts[2] if len(parts) > 2 else '',
                                    'demo_exit_without_patch': parts[3] if len(parts) > 3 else ''},
                'first_run_of_own_check': parts[-1], 'final_run': parts[-1], 'caught_after_strengthening': False,
            }
        json.dump(meta, open(mp, 'w'), indent=1)
