#!/bin/sh
# Runs the repository's pinned baseline (30 stable tests) in the tree given as $1 (default /repo)
# and reports whether all of them pass.  Only the two test files that hold the stable tests are
# collected when FAST=1 (the other 70 ids fail offline by construction).
R="${1:-/repo}"
OUT="$(mktemp /tmp/baseline.XXXXXX.xml)"
cd "$R" || exit 2
if [ "${FAST:-1}" = "1" ]; then
  /venv/bin/python -m pytest -q -p no:cacheprovider --timeout=900 code_data/_flags_data_test.py code_data/_line_mapping_test.py --junitxml="$OUT" >/dev/null 2>&1
else
  /venv/bin/python -m pytest -ra -q -p no:cacheprovider --timeout=900 --continue-on-collection-errors --junitxml="$OUT" >/dev/null 2>&1
fi
/venv/bin/python - "$OUT" <<'PY'
import json, sys, xml.etree.ElementTree as ET
stable = set(json.load(open('/root/.vp/BASELINE.json'))['stable_pass'])
passed = set()
for tc in ET.parse(sys.argv[1]).getroot().iter('testcase'):
    if not any(ch.tag in ('failure', 'error', 'skipped') for ch in tc):
        passed.add('%s::%s' % (tc.get('classname'), tc.get('name')))
missing = sorted(stable - passed)
print('baseline: %d/%d stable tests pass' % (len(stable & passed), len(stable)))
for m in missing:
    print('  FAILS:', m)
sys.exit(1 if missing else 0)
PY
rc=$?
rm -f "$OUT"
exit $rc
